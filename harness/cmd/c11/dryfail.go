// dryfail.go — a send that FAILS (or ends unanswered) on the newest listening stream takes nothing away from it.
//
// The other families only ever issue sends that can succeed. Here the session's live listening stream L — the
// session's very first stream, or a stream reopened 1..k times (predecessor replaced while open / closed by its peer
// first; opened plain or with a Last-Event-ID) — is given sends that cannot succeed or are never answered:
//
//	unencodable      a payload json.Marshal rejects (NaN, +Inf, -Inf, chan, func, cyclic map, complex, a Marshaler
//	                 that fails, NaN nested in a slice) as the params of Server.SendRequest (own id / generated id),
//	                 as the ID of Server.SendRequest, as the params of Server.SendNotification and of
//	                 Server.BroadcastNotification: nothing can have been written to the wire;
//	cancelled-ctx    Server.SendRequest (own / generated id) and Server.ListRoots from a tool handler under a context
//	                 that is already cancelled;
//	unanswered       the same three calls under a short deadline; the client does not answer (or answers late, after
//	                 the call has returned).
//
// The outcome of these calls themselves is NOT judged (only counted): the property does not say what they return.
// What the property says is that from the moment L's headers were received EVERY notification or server request
// addressed to the session succeeds and is delivered on L. So after each such call: a notification (must succeed, must
// arrive on L), a broadcast (must not fail, must arrive on L), and SendRequest own-id / generated-id / ListRoots
// (frame on L, the client answers, the call returns that answer). L must not have been ended by the server (no
// newer stream exists, its peer is connected): a stream that is over cannot carry what the property promises.
// Every few calls the stream is reopened, so that the failing sends hit the first, the second, ... the n-th stream.
package main

import (
	"context"
	"errors"
	"fmt"
	"math"
	"runtime/debug"
	"strings"
	"time"

	mcp "trpc.group/trpc-go/trpc-mcp-go"

	"verifharness/lib/kit"
	"verifharness/lib/vh"
)

const dryFam = "dry-fail"

type failingMarshaler struct{}

func (failingMarshaler) MarshalJSON() ([]byte, error) { return nil, errors.New("verif: cannot be encoded") }

type badVal struct {
	name string
	mk   func() interface{}
	asID bool // usable as a request id (the id is formatted by the library before it is encoded)
}

var badVals = []badVal{
	{"NaN", func() interface{} { return math.NaN() }, true},
	{"+Inf", func() interface{} { return math.Inf(1) }, true},
	{"-Inf", func() interface{} { return math.Inf(-1) }, true},
	{"chan", func() interface{} { return make(chan int) }, true},
	{"func", func() interface{} { return func() {} }, true},
	{"cyclic-map", func() interface{} { m := map[string]interface{}{}; m["self"] = m; return m }, false},
	{"complex", func() interface{} { return complex(1, 2) }, true},
	{"failing-Marshaler", func() interface{} { return failingMarshaler{} }, false},
	{"NaN-nested-in-slice", func() interface{} { return []interface{}{1, map[string]interface{}{"x": float32(math.NaN())}} }, false},
}

// dryKind is one kind of send that cannot succeed / is not answered.
type dryKind struct {
	class, api, val string
	run             func(d *dry) string // returns the outcome (counted, never judged)
}

func (k dryKind) name() string {
	if k.val != "" {
		return k.class + ":" + k.api + "=" + k.val
	}
	return k.class + ":" + k.api
}

// dry is one schedule (own server).
type dry struct {
	p       *pend
	r       *vh.Run
	in      *kit.Instance
	e       *env
	live    *tracked
	opened  int // streams of this session opened so far (the live one included)
	history string
}

func outcomeOf(err error, pan string) string {
	switch {
	case pan != "":
		return "panicked"
	case err == nil:
		return "returned-no-error"
	case errors.Is(err, context.Canceled), strings.Contains(err.Error(), context.Canceled.Error()):
		return "error:context-canceled"
	case errors.Is(err, context.DeadlineExceeded), strings.Contains(err.Error(), context.DeadlineExceeded.Error()):
		return "error:deadline-exceeded"
	}
	return "error"
}

func (d *dry) sendRequest(ctx context.Context, rq *mcp.JSONRPCRequest) (out string) {
	var err error
	pan := ""
	func() {
		defer func() {
			if x := recover(); x != nil {
				pan = fmt.Sprintf("%v\n%s", x, debug.Stack())
			}
		}()
		_, err = d.in.Server.SendRequest(ctx, d.e.sid, rq)
	}()
	return outcomeOf(err, pan)
}

func (d *dry) request(ownID bool, params interface{}) *mcp.JSONRPCRequest {
	rq := &mcp.JSONRPCRequest{JSONRPC: "2.0", Params: params}
	rq.Method = "verif/dry"
	if ownID {
		rq.ID = int64(8_000_000 + reqCtr.Add(1))
	}
	return rq
}

// dryRootsFixture: a tool whose handler calls ListRoots under a context that is cancelled / runs out.
func dryRootsFixture(in *kit.Instance) {
	in.RegisterTool(mcp.NewTool("askrootsdry", mcp.WithString("how", mcp.Required())), func(ctx context.Context, req *mcp.CallToolRequest) (res *mcp.CallToolResult, err error) {
		how, _ := req.Params.Arguments["how"].(string)
		out := ""
		defer func() {
			if x := recover(); x != nil {
				out = "panicked"
			}
			res, err = mcp.NewTextResult(out), nil
		}()
		var rctx context.Context
		var cancel context.CancelFunc
		if how == "cancelled" {
			rctx, cancel = context.WithCancel(ctx)
			cancel()
		} else {
			rctx, cancel = context.WithTimeout(ctx, 60*time.Millisecond)
			defer cancel()
		}
		_, e := in.Server.ListRoots(rctx)
		out = outcomeOf(e, "")
		return
	})
}

func (d *dry) rootsInTool(how string) string {
	st := d.p.post(`{"jsonrpc":"2.0","id":"dry-`+newNonce("c")+`","method":"tools/call","params":{"name":"askrootsdry","arguments":{"how":"`+how+`"}}}`, 20*time.Second)
	if st == 0 {
		return "tool-call-not-answered-within-watchdog"
	}
	return fmt.Sprintf("tool-call-status-%d", st)
}

func dryKinds() []dryKind {
	var ks []dryKind
	for _, v := range badVals {
		v := v
		bad := func() map[string]interface{} {
			return map[string]interface{}{"nonce": newNonce("dry"), "payload": v.mk()}
		}
		ks = append(ks,
			dryKind{"unencodable", "SendRequest,own-id,params", v.name, func(d *dry) string {
				return d.sendRequest(context.Background(), d.request(true, bad()))
			}},
			dryKind{"unencodable", "SendRequest,generated-id,params", v.name, func(d *dry) string {
				return d.sendRequest(context.Background(), d.request(false, bad()))
			}},
			dryKind{"unencodable", "SendNotification,params", v.name, func(d *dry) (out string) {
				defer func() {
					if recover() != nil {
						out = "panicked"
					}
				}()
				return outcomeOf(d.in.Server.SendNotification(d.e.sid, "notifications/dry", bad()), "")
			}},
			dryKind{"unencodable", "BroadcastNotification,params", v.name, func(d *dry) (out string) {
				defer func() {
					if recover() != nil {
						out = "panicked"
					}
				}()
				_, err := d.in.Server.BroadcastNotification("notifications/dry", bad())
				return outcomeOf(err, "")
			}})
		if v.asID {
			ks = append(ks, dryKind{"unencodable", "SendRequest,id", v.name, func(d *dry) string {
				rq := d.request(false, map[string]interface{}{"nonce": newNonce("dry")})
				rq.ID = v.mk()
				return d.sendRequest(context.Background(), rq)
			}})
		}
	}
	for _, own := range []bool{true, false} {
		own := own
		api := "SendRequest,generated-id"
		if own {
			api = "SendRequest,own-id"
		}
		ks = append(ks, dryKind{"cancelled-ctx", api, "", func(d *dry) string {
			ctx, cancel := context.WithCancel(context.Background())
			cancel()
			return d.sendRequest(ctx, d.request(own, map[string]interface{}{"nonce": newNonce("dry")}))
		}})
		for _, late := range []bool{false, true} {
			late := late
			val := ""
			if late {
				val = "client-answers-after-the-call-returned"
			}
			ks = append(ks, dryKind{"unanswered", api, val, func(d *dry) string {
				nonce := newNonce("dry")
				ctx, cancel := context.WithTimeout(context.Background(), 60*time.Millisecond)
				defer cancel()
				out := d.sendRequest(ctx, d.request(own, map[string]interface{}{"nonce": nonce}))
				if late {
					// the frame (if it went out) is on the live stream; answering it now is legal client behaviour
					if f, ok := d.live.waitReq(func(f reqFrame) bool { return f.nonce == nonce }, 3*time.Second); ok {
						st := d.p.post(fmt.Sprintf(`{"jsonrpc":"2.0","id":%s,"result":{"answer":"late"}}`, f.id), 10*time.Second)
						d.r.Count(fmt.Sprintf("dry_fail_late_answers_posted_status=%d", st), 1)
					}
				}
				return out
			}})
		}
	}
	ks = append(ks,
		dryKind{"cancelled-ctx", "ListRoots-in-tool-handler", "", func(d *dry) string { return d.rootsInTool("cancelled") }},
		dryKind{"unanswered", "ListRoots-in-tool-handler", "", func(d *dry) string { return d.rootsInTool("deadline") }})
	return ks
}

func isEnded(t *tracked) bool {
	select {
	case <-t.s.Done():
		return true
	default:
		return false
	}
}

// markRoots: every roots/list frame received so far belongs to a call already accounted for. Called after a judged
// notification was read from the live stream: events of one stream arrive in order, so every frame written before
// it has been parsed.
func (d *dry) markRoots() {
	d.live.mu.Lock()
	defer d.live.mu.Unlock()
	for _, f := range d.live.reqs {
		if f.method == "roots/list" {
			d.p.used[f.id] = true
		}
	}
}

// judge: ordinary traffic for the session, right after a send of kind k. Returns false when the schedule is over.
func (d *dry) judge(k string, reqKinds []string) bool {
	p := d.p
	scn := dryFam + ":" + k
	if isEnded(d.live) {
		d.r.Eval(1)
		p.violation(nil, "live-stream-ended-by-server", fmt.Sprintf("after a send that could not succeed (%s) the server ended the session's newest listening stream %s (%s) itself: no newer stream was opened and its peer is connected", k, d.live.name, d.history))
		return false
	}
	if !d.e.expectOn(scn, "after", d.live) {
		p.bad = true
		return false
	}
	d.markRoots()
	// broadcast: addressed to every session, this one included
	nonce := newNonce("bc")
	var berr error
	func() {
		defer func() {
			if x := recover(); x != nil {
				berr = fmt.Errorf("PANIC: %v", x)
			}
		}()
		_, berr = d.in.Server.BroadcastNotification("notifications/verif", map[string]interface{}{"nonce": nonce})
	}()
	d.r.Eval(1)
	if berr != nil {
		p.violation(nil, "broadcast-failed", fmt.Sprintf("after a send that could not succeed (%s) a broadcast failed although the session's newest stream %s is open and its headers were received long ago: %v", k, d.live.name, berr))
		return false
	}
	if !d.live.waitFor(nonce, 5*time.Second) {
		if isEnded(d.live) {
			p.violation(nil, "broadcast-not-on-live-stream", fmt.Sprintf("after a send that could not succeed (%s) a broadcast reported success but was not delivered on the newest stream %s, which the server has ended", k, d.live.name))
		} else {
			p.inconclusive("a broadcast that reported success was not read from the live stream within the watchdog")
		}
		return false
	}
	d.r.Count("dry_fail_broadcasts_delivered_on_live_stream", 1)
	for _, rk := range reqKinds {
		if p.issue(rk, "after-"+k, d.live, nil) == nil {
			return false
		}
	}
	p.answerAll()
	if p.bad {
		return false
	}
	if n := mcp.VerifListeningStreams(d.in.Server); n != 1 {
		d.r.Eval(1)
		p.violation(nil, "live-stream-not-registered", fmt.Sprintf("after a send that could not succeed (%s) and ordinary traffic, %d listening streams are registered (the session's newest stream is open)", k, n))
		return false
	}
	d.r.Count("dry_fail_sends_followed_by_working_traffic", 1)
	d.r.Count("dry_fail_sends_followed_by_working_traffic:"+strings.SplitN(k, "=", 2)[0], 1)
	d.r.Distinct(dryFam + "|" + k + "|" + d.history)
	return true
}

// reopen: the client opens its next stream; its predecessor is open (replaced) or was closed by its peer first.
func (d *dry) reopen(m openMode, predClosed bool) bool {
	old := d.live
	if predClosed {
		old.s.Close()
		for dl := time.Now().Add(5 * time.Second); mcp.VerifListeningStreams(d.in.Server) > 0 && time.Now().Before(dl); {
			time.Sleep(time.Millisecond)
		}
	}
	t, err := d.e.openAs(fmt.Sprintf("L%d", d.opened), m)
	if err != nil {
		d.p.violation(nil, "open-refused", "the GET of the next stream was refused: "+err.Error())
		return false
	}
	settled(t)
	d.opened++
	d.live = t
	how := "replaced-while-open"
	if predClosed {
		how = "predecessor-closed-by-peer"
	} else {
		old.ended(10 * time.Second) // sync aid; judged by the other families
	}
	d.history = fmt.Sprintf("stream#%d,%s,open=%s", min(d.opened, 4), how, t.mode)
	d.p.step("open %s (%s, %s): headers received", t.name, t.mode, how)
	return true
}

var dryBad int

// dryFailSchedule: one session on its own server; first = the session has no history (its live stream is the very
// first one it ever opened), k = reopens before the first failing send, every = a reopen after that many failing sends.
func dryFailSchedule(r *vh.Run, first bool, k int, every int, idx int) {
	if dryBad >= 3 {
		r.Count("dry_fail_schedules_skipped_failure_established", 1)
		return
	}
	in := kit.Start(kit.SJSON, kit.Opts{})
	pendingFixture(in)
	dryRootsFixture(in)
	var e *env
	if first {
		ctx := context.Background()
		c, err := in.Dial(ctx)
		if err != nil {
			r.Fatal("dial: %v", err)
		}
		if err := c.Handshake(ctx); err != nil {
			r.Fatal("handshake: %v", err)
		}
		e = &env{r: r, in: in, hp: c.HP, sid: c.SessionID}
	} else {
		e = newEnv(r, in, nil)
	}
	scn := fmt.Sprintf("first-stream-ever=%v,reopens-before=%d,reopen-every=%d", first, k, every)
	p := &pend{r: r, in: in, e: e, scn: scn, used: map[string]bool{}, fam: dryFam}
	d := &dry{p: p, r: r, in: in, e: e}
	defer func() {
		if d.live != nil {
			d.live.s.Close()
		}
		for dl := time.Now().Add(3 * time.Second); mcp.VerifListeningStreams(in.Server) > 0 && time.Now().Before(dl); {
			time.Sleep(time.Millisecond)
		}
		in.Close()
		if p.bad {
			dryBad++
		}
		tm("dry-fail " + scn)
	}()
	r.Count("dry_fail_schedules_started", 1)
	rng := r.Rand(fmt.Sprintf("dry-fail-%d", idx))
	// the live stream
	t, err := e.openAs("L0", mPlain)
	if err != nil {
		r.Fatal("open L0: %v", err)
	}
	d.live, d.opened = t, 1
	if !first {
		d.opened = 2
	}
	d.history = fmt.Sprintf("stream#%d,first-of-this-schedule,open=plain", d.opened)
	p.step("open L0 (plain): headers received")
	if e.registered(1, 3*time.Second) != 1 {
		p.inconclusive("the stream did not register")
		return
	}
	for i := 0; i < k; i++ {
		if !d.reopen(allModes[rng.Intn(len(allModes))], rng.Intn(2) == 0) {
			return
		}
	}
	if !e.expectOn(dryFam+":baseline", "before", d.live) {
		p.bad = true
		return
	}
	kinds := dryKinds()
	rng.Shuffle(len(kinds), func(i, j int) { kinds[i], kinds[j] = kinds[j], kinds[i] })
	for i, kd := range kinds {
		if every > 0 && i > 0 && i%every == 0 {
			if !d.reopen(allModes[rng.Intn(len(allModes))], rng.Intn(2) == 0) {
				return
			}
		}
		p.step("%s on %s", kd.name(), d.live.name)
		out := kd.run(d)
		p.step("-> %s", out)
		r.Count("dry_fail_sends_performed", 1)
		r.Count("dry_fail_sends_performed:"+kd.class, 1)
		r.Count("dry_fail_outcome:"+kd.class+":"+kd.api+":"+out, 1)
		rk := append([]string{}, allReqKinds...)
		rng.Shuffle(len(rk), func(i, j int) { rk[i], rk[j] = rk[j], rk[i] })
		if r.Quick() {
			rk = rk[:1+i%2]
		}
		if !d.judge(kd.name(), rk) {
			return
		}
	}
	// the stream is still the session's own: it is ended only when its peer leaves
	if isEnded(d.live) {
		r.Eval(1)
		p.violation(nil, "live-stream-ended-by-server", "at the end of the schedule the server has ended the session's newest listening stream itself")
		return
	}
	if e.expectOn(dryFam+":final", "final", d.live) && !p.bad {
		r.Count("dry_fail_schedules_judged", 1)
		r.Count("schedules_realised", 1)
		if idx == 1 {
			r.Sample(map[string]interface{}{"scenario": dryFam + "|" + scn, "schedule": p.tail()})
		}
	}
}

func dryFailAll(r *vh.Run) {
	type cfg struct {
		first    bool
		k, every int
	}
	cfgs := []cfg{{true, 0, 0}, {true, 1, 0}, {false, 0, 0}, {false, 2, 7}, {true, 0, 5}, {false, 3, 3}}
	idx := 0
	for rep := 0; rep < r.Pick(1, 4); rep++ {
		for _, c := range cfgs {
			idx++
			dryFailSchedule(r, c.first, c.k, c.every, idx)
		}
	}
	ok := dryBad > 0
	if !ok {
		ok = r.Counter("dry_fail_schedules_judged") > 0
		for _, c := range []string{"unencodable", "cancelled-ctx", "unanswered"} {
			if r.Counter("dry_fail_sends_performed:"+c) == 0 {
				ok = false
			}
		}
	}
	r.Require(ok, "dry-fail: no schedule with failing / unanswered sends on the newest stream followed by ordinary traffic could be judged (schedules judged=%d, failing sends performed=%d, followed by working traffic=%d)",
		r.Counter("dry_fail_schedules_judged"), r.Counter("dry_fail_sends_performed"), r.Counter("dry_fail_sends_followed_by_working_traffic"))
}
