// overlap.go — SEVERAL new listening streams of one session being set up at the same time.
//
// The other scenarios of this check open a successor while exactly one predecessor exists and nobody else is
// opening. Here 2, 3 and 4 GETs of the same session overlap: they are parked together at get.H (new handler, before
// the table store — every one of them is past whatever the implementation does before that point), released in
// enumerated / seeded orders, one after the other ("serial": the next one is released only after the previous one's
// headers were received) or in a burst, with and without a pre-existing stream, with the superseded handlers
// additionally parked at get.T / get.E, with judged sends between the steps and unjudged sends in flight; plus
// seeded walks (start / release steps interleaved) and free-running storms of k concurrent openers.
//
// Oracle (property text only): once every set-up has finished and every stream's headers were received,
//   - a send succeeds and is delivered on exactly one stream W;
//   - W is not a stream that some other opened stream clearly follows (X clearly precedes Y when X's headers were
//     received before Y's GET was started); among truly concurrent opens any single winner is accepted;
//   - every other opened stream has been ended by the server ("the old stream is closed");
//   - the server has exactly one registered listening stream (the scenario runs on its own server instance);
//   - a further send succeeds and arrives on W and on no other stream.
//
// A send placed between the steps, at a moment when some stream's headers had been received and no released set-up
// was still running, must succeed and be delivered exactly once, on a stream that no stream whose headers had been
// received at that moment clearly follows.
package main

import (
	"context"
	"fmt"
	"math/rand"
	"os"
	"runtime/debug"
	"strings"
	"sync"
	"sync/atomic"
	"time"

	mcp "trpc.group/trpc-go/trpc-mcp-go"

	"verifharness/lib/kit"
	"verifharness/lib/sched"
	"verifharness/lib/vh"
)

var (
	lclock       atomic.Int64 // logical clock ordering "GET started" / "headers received" / "send started"
	nonceCtr     atomic.Int64
	reqCtr       atomic.Int64
	ovViolations atomic.Int64 // overlap scenarios stop once the failure is established (each unclosed stream costs a long wait)
)

const ovViolationCap = 4

// ostream is one GET of the session, opened in the background.
type ostream struct {
	name     string
	startSeq int64
	hdrSeq   int64 // valid once ready is closed
	t        *tracked
	err      error
	ready    chan struct{}
}

// begin starts a plain GET in the background; beginAs (resume.go) one with a Last-Event-ID.
func (e *env) begin(name string) *ostream { return e.beginAs(name, mPlain) }

func (o *ostream) isReady() bool {
	select {
	case <-o.ready:
		return true
	default:
		return false
	}
}

func (o *ostream) awaitReady(d time.Duration) bool {
	select {
	case <-o.ready:
		return true
	case <-time.After(d):
		return false
	}
}

func (o *ostream) opened() bool { return o.isReady() && o.t != nil }

func (o *ostream) isEnded() bool {
	select {
	case <-o.t.s.Done():
		return true
	default:
		return false
	}
}

// msend is a send placed between the steps of a schedule; it is judged when the schedule is over.
type msend struct {
	label  string
	nonce  string
	at     int64
	recvd  []*ostream // streams whose headers had been received when the send was started
	err    error
	done   chan struct{}
	judged bool
}

func newNonce(tag string) string { return fmt.Sprintf("ov%d-%s", nonceCtr.Add(1), tag) }

func sendNonce(r *vh.Run, in *kit.Instance, sid, nonce string) (err error) {
	defer func() {
		if p := recover(); p != nil {
			err = fmt.Errorf("PANIC in SendNotification: %v", p)
			r.Violation("C11|send-panicked|"+panicSite(), fmt.Sprintf("Server.SendNotification panicked: %v", p), map[string]interface{}{"stack": string(debug.Stack())})
		}
	}()
	return in.Server.SendNotification(sid, "notifications/verif", map[string]interface{}{"nonce": nonce})
}

// ov is one overlap schedule on its own server instance.
type ov struct {
	r       *vh.Run
	in      *kit.Instance
	e       *env
	ctl     *sched.Controller
	scn     string
	streams []*ostream
	sends   []*msend
	trace   []string
	stopN   chan struct{}
	noiseWG sync.WaitGroup
}

func newOv(r *vh.Run, scn string, ctl *sched.Controller) *ov {
	in := kit.Start(kit.SJSON, kit.Opts{})
	ctl.Install()
	return &ov{r: r, in: in, ctl: ctl, scn: scn, e: newEnv(r, in, ctl)}
}

func (o *ov) step(f string, a ...interface{}) { o.trace = append(o.trace, fmt.Sprintf(f, a...)) }

func (o *ov) releaseAll() {
	for _, p := range []string{"get.H", "get.T", "get.E"} {
		o.ctl.Release(p)
	}
}

func (o *ov) close() {
	o.stopNoise()
	o.releaseAll()
	for _, s := range o.streams {
		if s.awaitReady(10*time.Second) && s.t != nil {
			s.t.s.Close()
		}
	}
	// let the handlers of this instance run through their exit path (get.E) before the controller changes hands
	for dl := time.Now().Add(3 * time.Second); mcp.VerifListeningStreams(o.in.Server) > 0 && time.Now().Before(dl); {
		time.Sleep(time.Millisecond)
	}
	sched.Uninstall()
	o.in.Close()
}

func (o *ov) witness(extra map[string]interface{}) map[string]interface{} {
	w := map[string]interface{}{"scenario": o.scn, "schedule": o.trace, "registered_streams": mcp.VerifListeningStreams(o.in.Server)}
	var st []string
	for _, s := range o.streams {
		switch {
		case !s.isReady():
			st = append(st, s.name+": headers not received")
		case s.t == nil:
			st = append(st, s.name+": refused: "+s.err.Error())
		case s.isEnded():
			st = append(st, fmt.Sprintf("%s: started@%d headers@%d, ended", s.name, s.startSeq, s.hdrSeq))
		default:
			st = append(st, fmt.Sprintf("%s: started@%d headers@%d, still open at the peer", s.name, s.startSeq, s.hdrSeq))
		}
	}
	w["streams"] = st
	for k, v := range extra {
		w[k] = v
	}
	return w
}

func (o *ov) violation(symptom, what string, extra map[string]interface{}) {
	ovViolations.Add(1)
	o.r.Violation("C11|"+o.scn+"|"+symptom, o.scn+": "+what, o.witness(extra))
}

func (o *ov) inconclusive(what string) {
	o.r.Inconclusive(o.scn + ": " + what + " [" + strings.Join(o.trace, "; ") + "]")
}

// noise: unjudged notifications and server requests in flight while the set-ups run.
func (o *ov) startNoise() {
	if o.stopN != nil {
		return
	}
	o.stopN = make(chan struct{})
	stop := o.stopN
	for g := 0; g < 2; g++ {
		o.noiseWG.Add(1)
		go func(g int) {
			defer o.noiseWG.Done()
			for i := 0; ; i++ {
				select {
				case <-stop:
					return
				default:
				}
				if g == 1 && i%4 == 3 {
					func() {
						defer func() { recover() }()
						rctx, rc := context.WithTimeout(context.Background(), 3*time.Millisecond)
						defer rc()
						rq := &mcp.JSONRPCRequest{JSONRPC: "2.0"}
						rq.ID = 990000 + reqCtr.Add(1)
						rq.Method = "roots/list"
						o.in.Server.SendRequest(rctx, o.e.sid, rq)
					}()
				} else {
					safeNoise(o.r, o.in, o.e.sid, fmt.Sprintf("%d-%d", g, i))
				}
				o.r.Count("overlap_unjudged_sends_in_flight", 1)
				time.Sleep(time.Duration(150+100*g) * time.Microsecond)
			}
		}(g)
	}
}

func (o *ov) stopNoise() {
	if o.stopN != nil {
		close(o.stopN)
		o.noiseWG.Wait()
		o.stopN = nil
	}
}

// midSend places a judged send; the caller guarantees that no released set-up is still running. It waits for the call
// to return (watchdog only: a blocked call is picked up again at judgement time).
func (o *ov) midSend(label string) {
	var recvd []*ostream
	for _, s := range o.streams {
		if s.opened() {
			recvd = append(recvd, s)
		}
	}
	if len(recvd) == 0 {
		return
	}
	m := &msend{label: label, nonce: newNonce("mid"), recvd: recvd, done: make(chan struct{})}
	m.at = lclock.Add(1)
	o.sends = append(o.sends, m)
	o.step("send(%s)", label)
	go func() {
		m.err = sendNonce(o.r, o.in, o.e.sid, m.nonce)
		close(m.done)
	}()
	select {
	case <-m.done:
	case <-time.After(3 * time.Second):
	}
}

func (o *ov) openedStreams() []*ostream {
	var l []*ostream
	for _, s := range o.streams {
		if s.opened() {
			l = append(l, s)
		}
	}
	return l
}

func (o *ov) holders(nonce string) []*ostream {
	var l []*ostream
	for _, s := range o.openedStreams() {
		if s.t.has(nonce) {
			l = append(l, s)
		}
	}
	return l
}

func names(l []*ostream) []string {
	n := make([]string, 0, len(l))
	for _, s := range l {
		n = append(n, s.name)
	}
	return n
}

func (o *ov) waitAnywhere(nonce string, d time.Duration) *ostream {
	deadline := time.Now().Add(d)
	for {
		if h := o.holders(nonce); len(h) > 0 {
			return h[0]
		}
		if !time.Now().Before(deadline) {
			return nil
		}
		time.Sleep(time.Millisecond)
	}
}

// supersededBy returns a stream among `among` that clearly follows x (x's headers were received before it was started).
func supersededBy(x *ostream, among []*ostream) *ostream {
	for _, y := range among {
		if y != x && x.opened() && x.hdrSeq < y.startSeq {
			return y
		}
	}
	return nil
}

// judge applies the quiescent oracle. Every point must have been released by the caller. It returns the surviving
// stream (left open) or nil when the schedule could not be judged / was refuted.
func (o *ov) judge() *ostream {
	r := o.r
	for _, s := range o.streams {
		if !s.awaitReady(20 * time.Second) {
			o.inconclusive("the GET of stream " + s.name + " did not answer")
			return nil
		}
		if s.t == nil {
			r.Count("overlap_open_refused", 1)
		}
	}
	opened := o.openedStreams()
	if len(opened) == 0 {
		o.inconclusive("no stream could be opened")
		return nil
	}
	r.Count("overlap_streams_opened", int64(len(opened)))
	r.Eval(1)

	// a send made now succeeds and is delivered on exactly one stream
	p := newNonce("final")
	if err := sendNonce(r, o.in, o.e.sid, p); err != nil {
		o.violation("send-failed", fmt.Sprintf("a notification sent after every stream's headers had been received failed: %v", err), map[string]interface{}{"error": err.Error()})
		return nil
	}
	w := o.waitAnywhere(p, 10*time.Second)
	if w == nil {
		// corroborate by order instead of by time: a later send that arrives somewhere proves the earlier one lost
		// when every other stream has ended (an ended stream has been read to its end)
		p2 := newNonce("final2")
		if err := sendNonce(r, o.in, o.e.sid, p2); err != nil {
			o.inconclusive("the first send was not seen and a second one failed: " + err.Error())
			return nil
		}
		w2 := o.waitAnywhere(p2, 10*time.Second)
		if w2 == nil {
			o.inconclusive("two successful sends were not seen on any stream within the watchdog")
			return nil
		}
		allOthersEnded := true
		for _, s := range opened {
			if s != w2 && !s.isEnded() {
				allOthersEnded = false
			}
		}
		if len(o.holders(p)) == 0 && allOthersEnded {
			o.violation("send-lost", "a notification sent after every stream's headers had been received succeeded but was delivered on no stream (a later one arrived on "+w2.name+", every other stream has ended)", nil)
			return nil
		}
		if h := o.holders(p); len(h) > 0 {
			w = h[0]
		} else {
			o.inconclusive("a successful send was not seen although a later one was; other streams still open")
			return nil
		}
	}
	if y := supersededBy(w, opened); y != nil {
		o.violation("delivered-on-superseded-stream", fmt.Sprintf("a notification sent after every stream's headers had been received was delivered on stream %s although stream %s was opened after %s's headers had been received", w.name, y.name, w.name),
			map[string]interface{}{"delivered_on": w.name, "newer": y.name})
		return nil
	}

	// every other opened stream has been closed by the server
	for _, l := range opened {
		if l == w {
			continue
		}
		if l.t.ended(15 * time.Second) {
			r.Count("overlap_superseded_streams_closed", 1)
			continue
		}
		// not by time alone: the server must demonstrably make progress (a full send/deliver cycle) while this stream stays open
		p3 := newNonce("progress")
		err := sendNonce(r, o.in, o.e.sid, p3)
		if err == nil && w.t.waitFor(p3, 10*time.Second) && !l.isEnded() {
			o.violation("superseded-stream-not-closed", fmt.Sprintf("stream %s was not closed by the server although stream %s owns the session (every set-up had finished, all headers were received, notifications are delivered on %s)", l.name, w.name, w.name),
				map[string]interface{}{"open": l.name, "owner": w.name})
			return nil
		}
		if !l.isEnded() {
			o.inconclusive("stream " + l.name + " did not end within the watchdog and the server's progress could not be shown")
			return nil
		}
	}
	if h := o.holders(p); len(h) != 1 {
		o.violation("delivered-twice", fmt.Sprintf("one notification was delivered on %v", names(h)), nil)
		return nil
	}
	// every loser has been read to its end, i.e. its handler has returned: the table must hold exactly the survivor
	if n := mcp.VerifListeningStreams(o.in.Server); n != 1 {
		o.violation("registered-streams-not-one", fmt.Sprintf("after every superseded stream ended the server has %d registered listening streams for the session, stream %s is open", n, w.name), nil)
		return nil
	}
	p4 := newNonce("after")
	if err := sendNonce(r, o.in, o.e.sid, p4); err != nil {
		o.violation("send-failed-after-teardowns", fmt.Sprintf("a notification sent after the superseded streams ended failed although stream %s is open: %v", w.name, err), map[string]interface{}{"error": err.Error()})
		return nil
	}
	if !w.t.waitFor(p4, 10*time.Second) {
		if w.isEnded() {
			o.violation("surviving-stream-ended", fmt.Sprintf("stream %s, the only one left, ended and a successful send was not delivered", w.name), nil)
		} else {
			o.inconclusive("a successful send was not seen on the surviving stream within the watchdog")
		}
		return nil
	}
	if h := o.holders(p4); len(h) != 1 {
		o.violation("delivered-twice", fmt.Sprintf("one notification was delivered on %v", names(h)), nil)
		return nil
	}

	// the sends placed between the steps: the survivor has delivered a later send and every other stream was read to its end
	for _, m := range o.sends {
		select {
		case <-m.done:
		case <-time.After(10 * time.Second):
			o.inconclusive("send " + m.label + " did not return")
			continue
		}
		r.Eval(1)
		if m.err != nil {
			o.violation("mid-send-failed", fmt.Sprintf("a notification sent %s (headers of %v received, no set-up running) failed: %v", m.label, names(m.recvd), m.err), map[string]interface{}{"send": m.label, "error": m.err.Error()})
			continue
		}
		h := o.holders(m.nonce)
		switch {
		case len(h) == 0:
			o.violation("mid-send-lost", fmt.Sprintf("a notification sent %s succeeded but was delivered on no stream", m.label), map[string]interface{}{"send": m.label})
		case len(h) > 1:
			o.violation("mid-send-delivered-twice", fmt.Sprintf("a notification sent %s was delivered on %v", m.label, names(h)), map[string]interface{}{"send": m.label})
		default:
			if y := supersededBy(h[0], m.recvd); y != nil {
				o.violation("mid-send-on-superseded-stream", fmt.Sprintf("a notification sent %s was delivered on stream %s although the headers of stream %s, opened after %s's headers had been received, were already at the peer", m.label, h[0].name, y.name, h[0].name),
					map[string]interface{}{"send": m.label, "delivered_on": h[0].name, "newer": y.name})
			} else {
				m.judged = true
				r.Count("overlap_mid_sends_delivered", 1)
			}
		}
	}
	r.Count("overlap_schedules_judged", 1)
	r.Count("deliveries_on_new_stream", 2)
	return w
}

// drainTE lets the handlers parked at get.T / get.E go one at a time in a seeded order.
func (o *ov) drainTE(rng *rand.Rand, max int) {
	for i := 0; i < max; i++ {
		nT := o.ctl.AwaitWaiting("get.T", 0, 0)
		nE := o.ctl.AwaitWaiting("get.E", 0, 0)
		if nT+nE == 0 {
			if o.ctl.AwaitWaiting("get.E", 1, 15*time.Millisecond)+o.ctl.AwaitWaiting("get.T", 0, 0) == 0 {
				return
			}
			continue
		}
		x := rng.Intn(nT + nE)
		if x < nT {
			o.ctl.ReleaseOne("get.T", x)
			o.step("release T#%d", x)
		} else {
			o.ctl.ReleaseOne("get.E", x-nT)
			o.step("release E#%d", x-nT)
		}
		o.r.Count("overlap_teardown_steps_ordered", 1)
	}
}

func (o *ov) openA(m openMode) bool {
	a := o.e.beginAs("A", m)
	o.streams = append(o.streams, a)
	if !a.awaitReady(20 * time.Second) {
		o.inconclusive("stream A could not be opened")
		return false
	}
	if a.t == nil {
		o.r.Fatal("open A: %v", a.err)
	}
	o.step("open A (%s)", a.t.mode)
	o.midSend("after-A-alone")
	return true
}

func stName(i int) string { return string(rune('B' + i)) }

// overlapParked: [A open;] hold get.H; k GETs started, all parked at H; released in `order`.
// `open` is the way the streams are opened: "plain", "last" (every GET carries the id of the event the session's client
// received last) or "mixed" (seeded per stream among plain / last / stale / garbage).
func overlapParked(r *vh.Run, k int, withA, serial bool, hold string, sends bool, open string, order []int, rng *rand.Rand) {
	if ovViolations.Load() >= ovViolationCap {
		r.Count("overlap_schedules_skipped_failure_established", 1)
		return
	}
	mode := "burst"
	if serial {
		mode = "serial"
	}
	scn := fmt.Sprintf("overlap-parked|k=%d,A=%v,%s,hold=H%s,sends=%v", k, withA, mode, hold, sends)
	if open != "plain" {
		scn += ",open=" + open
	}
	o := newOv(r, scn, sched.New(12*time.Second, r.Seed))
	defer o.close()
	if withA && !o.openA(pickMode(open, rng)) {
		return
	}
	o.ctl.Hold("get.H")
	news := make([]*ostream, k)
	for i := 0; i < k; i++ {
		news[i] = o.e.beginAs(stName(i), pickMode(open, rng))
		o.streams = append(o.streams, news[i])
		if o.ctl.AwaitWaiting("get.H", i+1, 8*time.Second) < i+1 {
			o.inconclusive("GET " + stName(i) + " did not reach get.H")
			return
		}
		o.step("start %s (parked at H)", stName(i))
	}
	if open != "plain" && strings.Contains(hold, "T") {
		r.Count("overlap_schedules_with_resumed_streams_parked_at_T", 1)
	}
	r.Max("overlap_parked_together_at_H", int64(o.ctl.MaxWaiting("get.H")))
	if strings.Contains(hold, "T") {
		o.ctl.Hold("get.T")
	}
	if strings.Contains(hold, "E") {
		o.ctl.Hold("get.E")
	}
	if sends {
		o.startNoise()
	}
	parked := make([]int, k)
	for i := range parked {
		parked[i] = i
	}
	for _, idx := range order {
		pos := -1
		for j, v := range parked {
			if v == idx {
				pos = j
			}
		}
		if pos < 0 || !o.ctl.ReleaseOne("get.H", pos) {
			o.inconclusive("the parked GET " + stName(idx) + " was gone (held longer than the controller allows)")
			return
		}
		parked = append(parked[:pos:pos], parked[pos+1:]...)
		o.step("release %s", stName(idx))
		if serial {
			if !news[idx].awaitReady(20 * time.Second) {
				o.inconclusive("headers of " + stName(idx) + " not received after its release")
				return
			}
			o.step("headers of %s received", stName(idx))
			if sends {
				o.midSend("after-headers-of-" + fmt.Sprint(k-len(parked)) + "-of-" + fmt.Sprint(k))
			}
		}
	}
	for _, s := range news {
		if !s.awaitReady(20 * time.Second) {
			o.inconclusive("headers of " + s.name + " not received")
			return
		}
	}
	o.stopNoise()
	o.drainTE(rng, 4*(k+1))
	o.releaseAll()
	if w := o.judge(); w != nil {
		r.Distinct(scn)
		r.Count("schedules_realised", 1)
		r.SetAdd("overlap_winner", fmt.Sprintf("k=%d,%s: released #%d of %d", k, mode, indexIn(order, int(w.name[0]-'B'))+1, k))
		if k >= 3 && serial && sends {
			r.Sample(map[string]interface{}{"scenario": scn, "schedule": o.trace, "survivor": w.name})
		}
	}
}

func indexIn(l []int, v int) int {
	for i, x := range l {
		if x == v {
			return i
		}
	}
	return -1
}

// overlapWalk: a seeded walk over {start a GET (parks at H), release a parked GET (and wait for its headers, or not),
// let one handler parked at T / E go, place a judged send}.
func overlapWalk(r *vh.Run, idx int) {
	if ovViolations.Load() >= ovViolationCap {
		r.Count("overlap_schedules_skipped_failure_established", 1)
		return
	}
	rng := r.Rand(fmt.Sprintf("overlap-walk-%d", idx))
	k := 2 + rng.Intn(3)
	withA := rng.Intn(2) == 0
	hold := []string{"", "T", "E", "TE"}[rng.Intn(4)]
	sends := rng.Intn(2) == 0
	open := []string{"plain", "last", "last", "mixed", "mixed"}[rng.Intn(5)]
	scn := fmt.Sprintf("overlap-walk|k=%d,A=%v,hold=H%s,sends=%v", k, withA, hold, sends)
	if open != "plain" {
		scn += ",open=" + open
	}
	o := newOv(r, scn, sched.New(12*time.Second, r.Seed+int64(idx)))
	defer o.close()
	if withA && !o.openA(pickMode(open, rng)) {
		return
	}
	o.ctl.Hold("get.H")
	if strings.Contains(hold, "T") {
		o.ctl.Hold("get.T")
	}
	if strings.Contains(hold, "E") {
		o.ctl.Hold("get.E")
	}
	// with T held stream A (if any) is not affected: it passed T before the hold
	if sends {
		o.startNoise()
	}
	var news, parked, unconfirmed []*ostream
	pattern := ""
	overlapped := false
	for len(news) < k || len(parked) > 0 {
		canStart, canRel := len(news) < k, len(parked) > 0
		c := rng.Intn(10)
		switch {
		case canStart && (!canRel || c < 4):
			s := o.e.beginAs(stName(len(news)), pickMode(open, rng))
			news = append(news, s)
			o.streams = append(o.streams, s)
			if o.ctl.AwaitWaiting("get.H", len(parked)+1, 8*time.Second) < len(parked)+1 {
				o.inconclusive("GET " + s.name + " did not reach get.H")
				return
			}
			parked = append(parked, s)
			if len(parked) >= 2 {
				overlapped = true
			}
			o.step("start %s (parked at H)", s.name)
			pattern += "s"
		case canRel && c < 8:
			pos := rng.Intn(len(parked))
			s := parked[pos]
			if !o.ctl.ReleaseOne("get.H", pos) {
				o.inconclusive("the parked GET " + s.name + " was gone (held longer than the controller allows)")
				return
			}
			parked = append(parked[:pos:pos], parked[pos+1:]...)
			if rng.Intn(3) > 0 {
				if !s.awaitReady(20 * time.Second) {
					o.inconclusive("headers of " + s.name + " not received after its release")
					return
				}
				o.step("release %s, headers received", s.name)
				pattern += "R"
			} else {
				unconfirmed = append(unconfirmed, s)
				o.step("release %s (not awaited)", s.name)
				pattern += "r"
			}
		case c == 8:
			o.drainTE(rng, 1)
			pattern += "t"
		default:
			// a judged send needs a quiet moment: every released set-up has delivered its headers
			quiet := true
			for _, s := range unconfirmed {
				if !s.isReady() {
					quiet = false
				}
			}
			if quiet && sends {
				o.midSend(fmt.Sprintf("at-step-%d", len(pattern)))
				pattern += "S"
			}
		}
	}
	r.Max("overlap_parked_together_at_H", int64(o.ctl.MaxWaiting("get.H")))
	for _, s := range news {
		if !s.awaitReady(20 * time.Second) {
			o.inconclusive("headers of " + s.name + " not received")
			return
		}
	}
	o.stopNoise()
	o.drainTE(rng, 4*(k+1))
	o.releaseAll()
	if w := o.judge(); w != nil && overlapped {
		r.Distinct(scn + "|" + pattern)
		r.Count("schedules_realised", 1)
		r.SetAdd("overlap_walk_patterns", pattern)
	}
}

// overlapStorm: free-running rounds of k concurrent openers with seeded delays at the three points and sends in flight.
func overlapStorm(r *vh.Run, idx, rounds int) {
	if ovViolations.Load() >= ovViolationCap {
		r.Count("overlap_schedules_skipped_failure_established", 1)
		return
	}
	rng := r.Rand(fmt.Sprintf("overlap-storm-%d", idx))
	ctl := sched.New(2*time.Second, r.Seed+int64(idx))
	for _, p := range []string{"get.H", "get.T", "get.E"} {
		ctl.RandomDelay(p, 0.5, 3*time.Millisecond)
	}
	o := newOv(r, "overlap-storm", ctl)
	defer o.close()
	var prev *ostream
	all := []*ostream{}
	for rd := 0; rd < rounds; rd++ {
		if ovViolations.Load() >= ovViolationCap {
			break
		}
		k := 2 + rng.Intn(3)
		o.scn = fmt.Sprintf("overlap-storm|k=%d", k)
		o.trace = nil
		o.sends = nil
		o.streams = nil
		if prev != nil {
			o.streams = append(o.streams, prev)
			o.step("%s open (survivor of the previous round)", prev.name)
			if rng.Intn(3) == 0 {
				o.step("peer closes %s while the others open", prev.name)
				go prev.t.s.Close()
			}
		}
		o.startNoise()
		for i := 0; i < k; i++ {
			s := o.e.beginAs(fmt.Sprintf("r%d.%d", rd, i), stormMode(rng))
			o.streams = append(o.streams, s)
			all = append(all, s)
			if d := rng.Intn(4); d > 0 {
				time.Sleep(time.Duration(d*100) * time.Microsecond)
			}
		}
		o.step("%d GETs started together", k)
		for _, s := range o.streams {
			s.awaitReady(20 * time.Second)
		}
		o.stopNoise()
		w := o.judge()
		if w == nil {
			break
		}
		r.Distinct(fmt.Sprintf("overlap-storm|k=%d|prev=%v", k, prev != nil))
		r.Count("overlap_storm_rounds_judged", 1)
		prev = w
	}
	o.streams = all // for close()
}

func permutations(k int) [][]int {
	var out [][]int
	var rec func(cur []int, used int)
	rec = func(cur []int, used int) {
		if len(cur) == k {
			out = append(out, append([]int(nil), cur...))
			return
		}
		for i := 0; i < k; i++ {
			if used&(1<<i) == 0 {
				rec(append(cur, i), used|1<<i)
			}
		}
	}
	rec(nil, 0)
	return out
}

// overlapAll runs the enumerated family, the walks and the storms.
func overlapAll(r *vh.Run) {
	rng := r.Rand("overlap-orders")
	reps := r.Pick(1, 4)
	only := os.Getenv("C11_OVERLAP_ONLY") // debugging aid (parked|walk|storm); the registered commands never set it
	if only != "" && only != "parked" {
		reps = 0
	}
	for rep := 0; rep < reps; rep++ {
		for _, k := range []int{2, 3, 4} {
			perms := permutations(k)
			pi := rng.Intn(len(perms))
			for _, withA := range []bool{true, false} {
				for _, serial := range []bool{true, false} {
					for _, hold := range []string{"", "E", "TE"} {
						for _, sends := range []bool{false, true} {
							for _, open := range []string{"plain", "last", "mixed"} {
								// k=2: both orders; k=3,4: orders rotate through the permutations from a seeded start
								n := 1
								if k == 2 {
									n = 2
								}
								for j := 0; j < n; j++ {
									pi = (pi + 1) % len(perms)
									overlapParked(r, k, withA, serial, hold, sends, open, perms[pi], rng)
								}
							}
						}
					}
				}
			}
		}
	}
	for i := 0; i < r.Pick(120, 900) && (only == "" || only == "walk"); i++ {
		overlapWalk(r, i)
	}
	for i := 0; i < r.Pick(4, 30) && (only == "" || only == "storm"); i++ {
		overlapStorm(r, i, r.Pick(25, 60))
	}
	if ovViolations.Load() == 0 && only == "" {
		r.Require(r.Counter("overlap_schedules_judged") > 0 && r.Counter("overlap_storm_rounds_judged") > 0,
			"no schedule with several listening streams being set up at the same time could be judged (judged=%d, storm rounds=%d)", r.Counter("overlap_schedules_judged"), r.Counter("overlap_storm_rounds_judged"))
	}
}
