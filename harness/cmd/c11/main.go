// C11 — a newer listening stream owns the session; an old one's exit never evicts it.
package main

import (
	"context"
	"fmt"
	"os"
	"runtime/debug"
	"strings"
	"sync"
	"time"

	mcp "trpc.group/trpc-go/trpc-mcp-go"

	"verifharness/lib/kit"
	"verifharness/lib/peer"
	"verifharness/lib/sched"
	"verifharness/lib/vh"
)

// tracked collects every event of one stream.
type tracked struct {
	name    string
	s       *peer.Stream
	mode    openMode // how the GET was issued (plain / with which kind of Last-Event-ID)
	mu      sync.Mutex
	cond    *sync.Cond
	seen    map[string]bool
	n       int
	notices int // "stream/resumed" frames: written by the server's resumption step, never the delivery of a judged send
	done    bool
	reqs    []reqFrame // server-to-client REQUEST frames received on this stream (pending.go)
}

// track reads the stream in the background; the session's client (e) is told the id of every event received, the
// way a real SSE client remembers its Last-Event-ID.
func track(name string, s *peer.Stream, e *env) *tracked {
	t := &tracked{name: name, s: s, seen: map[string]bool{}}
	t.cond = sync.NewCond(&t.mu)
	go func() {
		for ev := range s.Events {
			if ev.ID != "" {
				e.noteID(ev.ID)
			}
			t.mu.Lock()
			t.n++
			if strings.Contains(ev.Data, `"stream/resumed"`) {
				// extra frame of a resumed stream; deliveries are matched by nonce only
				t.notices++
				e.r.Count("stream_resumed_notices_seen", 1)
			} else if i := strings.Index(ev.Data, `"nonce":"`); i >= 0 {
				rest := ev.Data[i+9:]
				if j := strings.Index(rest, `"`); j >= 0 {
					t.seen[rest[:j]] = true
				}
			}
			if f, ok := parseReqFrame(ev.Data); ok {
				t.reqs = append(t.reqs, f)
			}
			t.cond.Broadcast()
			t.mu.Unlock()
		}
		t.mu.Lock()
		t.done = true
		t.cond.Broadcast()
		t.mu.Unlock()
	}()
	return t
}

func (t *tracked) has(nonce string) bool {
	t.mu.Lock()
	defer t.mu.Unlock()
	return t.seen[nonce]
}

func (t *tracked) waitFor(nonce string, d time.Duration) bool {
	tm := time.AfterFunc(d, func() { t.mu.Lock(); t.cond.Broadcast(); t.mu.Unlock() })
	defer tm.Stop()
	deadline := time.Now().Add(d)
	t.mu.Lock()
	defer t.mu.Unlock()
	for !t.seen[nonce] && !t.done && time.Now().Before(deadline) {
		t.cond.Wait()
	}
	return t.seen[nonce]
}

func (t *tracked) ended(d time.Duration) bool {
	select {
	case <-t.s.Done():
		return true
	case <-time.After(d):
		return false
	}
}

type env struct {
	r   *vh.Run
	in  *kit.Instance
	hp  *peer.HTTPPeer
	sid string
	n   int
	ctl *sched.Controller
	// what the session's client remembers of the events it received (see resume.go)
	idmu   sync.Mutex
	ids    []string
	staleN int
	garbN  int
}

func newEnv(r *vh.Run, in *kit.Instance, ctl *sched.Controller) *env {
	ctx := context.Background()
	c, err := in.Dial(ctx)
	if err != nil {
		r.Fatal("dial: %v", err)
	}
	if err := c.Handshake(ctx); err != nil {
		r.Fatal("handshake: %v", err)
	}
	e := &env{r: r, in: in, hp: c.HP, sid: c.SessionID, ctl: ctl}
	// every session gets a history first: a listening stream on which events were received, so that the GETs of the
	// scenario can be issued the way a reconnecting client issues them (with a Last-Event-ID)
	e.prime()
	return e
}

// open issues a plain GET (no Last-Event-ID).
func (e *env) open(name string) (*tracked, error) { return e.openAs(name, mPlain) }

func (e *env) send(tag string) (nonce string, err error) {
	e.n++
	nonce = fmt.Sprintf("%s-%s-%d", e.sid[:6], tag, e.n)
	defer func() {
		if p := recover(); p != nil {
			err = fmt.Errorf("PANIC in SendNotification: %v", p)
			e.r.Violation("C11|send-panicked|"+panicSite(), fmt.Sprintf("Server.SendNotification panicked: %v", p), map[string]interface{}{"stack": string(debug.Stack())})
		}
	}()
	return nonce, e.in.Server.SendNotification(e.sid, "notifications/verif", map[string]interface{}{"nonce": nonce})
}

func panicSite() string {
	for _, l := range strings.Split(string(debug.Stack()), "\n") {
		if strings.HasPrefix(l, "trpc.group/trpc-go/trpc-mcp-go") {
			l = strings.TrimPrefix(l, "trpc.group/trpc-go/trpc-mcp-go")
			if i := strings.LastIndex(l, "("); i > 0 {
				l = l[:i]
			}
			return strings.TrimPrefix(strings.TrimPrefix(l, "/internal/"), ".")
		}
	}
	return "unknown"
}

func safeNoise(r *vh.Run, in *kit.Instance, sid, v string) {
	defer func() {
		if p := recover(); p != nil {
			r.Violation("C11|send-panicked|"+panicSite(), fmt.Sprintf("Server.SendNotification panicked while a listening stream was closing: %v", p), map[string]interface{}{"stack": string(debug.Stack())})
		}
	}()
	_ = in.Server.SendNotification(sid, "notifications/noise", map[string]interface{}{"noise": v})
}

func (e *env) registered(want int, d time.Duration) int {
	deadline := time.Now().Add(d)
	for {
		n := mcp.VerifListeningStreams(e.in.Server)
		if n == want || !time.Now().Before(deadline) {
			return n
		}
		time.Sleep(2 * time.Millisecond)
	}
}

// expectOn: a send made now must succeed and arrive on `want` and on no other stream.
func (e *env) expectOn(scenario, gap string, want *tracked, others ...*tracked) bool {
	nonce, err := e.send(gap)
	e.r.Eval(1)
	sig := fmt.Sprintf("C11|%s|send@%s", scenario, gap)
	if err != nil {
		e.r.Violation(sig+"|send-failed", fmt.Sprintf("%s: a notification sent %s failed although the new stream's headers had been received: %v", scenario, gap, err),
			map[string]interface{}{"scenario": scenario, "gap": gap, "error": err.Error(), "registered_streams": mcp.VerifListeningStreams(e.in.Server)})
		return false
	}
	if !want.waitFor(nonce, 5*time.Second) {
		where := "nowhere"
		for _, o := range others {
			if o != nil && o.has(nonce) {
				where = "old stream " + o.name
			}
		}
		e.r.Violation(sig+"|not-on-new-stream", fmt.Sprintf("%s: a notification sent %s succeeded but was delivered %s instead of on the new stream %s", scenario, gap, where, want.name),
			map[string]interface{}{"scenario": scenario, "gap": gap, "delivered": where})
		return false
	}
	for _, o := range others {
		if o != nil && o.has(nonce) {
			e.r.Violation(sig+"|also-on-old-stream", fmt.Sprintf("%s: notification delivered on %s and on %s", scenario, want.name, o.name), nil)
			return false
		}
	}
	e.r.Count("deliveries_on_new_stream", 1)
	return true
}

func scenarioHT(r *vh.Run, in *kit.Instance, mA, mB openMode) {
	name := "H-T" + modeSuffix(mA, mB)
	// how long the headers of a GET parked before its table store are waited for (loopback: they are there within a
	// millisecond when the implementation sends them early); waiting shorter can only make the gap "not realisable"
	hdrWait := 2 * time.Second
	if name != "H-T" {
		hdrWait = 500 * time.Millisecond
	}
	// S between "B's headers received" and "B stored", old stream A still alive.
	ctl := sched.New(8*time.Second, r.Seed)
	ctl.Install()
	defer sched.Uninstall()
	e := newEnv(r, in, ctl)
	a, err := e.openAs("A", mA)
	if err != nil {
		r.Fatal("open A: %v", err)
	}
	settled(a) // A is the established stream of this schedule: its own post-registration step is over
	e.registered(1, 3*time.Second)
	e.expectOn(name, "baseline-on-A", a)
	ctl.Hold("get.H")
	type res struct {
		t   *tracked
		err error
	}
	ch := make(chan res, 1)
	go func() { b, err := e.openAs("B", mB); ch <- res{b, err} }()
	var b *tracked
	realised := false
	select {
	case x := <-ch:
		// headers of B are at the peer; is the new handler still before the table store?
		if x.err != nil {
			r.Fatal("open B: %v", x.err)
		}
		b = x.t
		if ctl.AwaitWaiting("get.H", 1, 2*time.Second) >= 1 {
			realised = true
			ok := e.expectOn(name, "after-headers-before-store", b, a)
			if ok {
				r.Distinct(name + "|send-between-headers-and-store|delivered-on-new")
			}
		}
	case <-time.After(hdrWait):
		// headers are not visible while the handler is held at H: the implementation flushes after the store
	}
	ctl.Release("get.H")
	if b == nil {
		x := <-ch
		if x.err != nil {
			r.Fatal("open B: %v", x.err)
		}
		b = x.t
	}
	if !realised {
		r.Count("schedules_not_realisable", 1)
		r.SetAdd("not_realisable", "H-T: headers are not at the peer while the handler is before the table store")
		r.Distinct(name + "|headers-only-after-store")
	} else {
		r.Count("schedules_realised", 1)
	}
	// after the headers (and the release) every send belongs to B
	if e.expectOn(name, "after-store", b, a) {
		r.Distinct(name + "|send-after-store")
	}
	if !a.ended(10 * time.Second) {
		r.Violation("C11|"+name+"|old-stream-not-closed", "the old stream was not closed after a newer stream registered", nil)
	}
	if e.expectOn(name, "after-old-exit", b, a) {
		r.Distinct(name + "|send-after-old-exit")
	}
	b.s.Close()
}

func scenarioE(r *vh.Run, in *kit.Instance, peerCloses bool, mA, mB openMode) {
	// the old handler woke (cancelled by the newcomer, or its peer went away) and is held before its table delete
	name := "E-cancelled"
	if peerCloses {
		name = "E-peer-closed"
	}
	name += modeSuffix(mA, mB)
	ctl := sched.New(8*time.Second, r.Seed)
	ctl.Install()
	defer sched.Uninstall()
	e := newEnv(r, in, ctl)
	a, err := e.openAs("A", mA)
	if err != nil {
		r.Fatal("open A: %v", err)
	}
	settled(a) // A is the established stream of this schedule: its own post-registration step is over
	e.registered(1, 3*time.Second)
	ctl.Hold("get.E")
	if peerCloses {
		a.s.Close()
		if ctl.AwaitWaiting("get.E", 1, 5*time.Second) < 1 {
			r.Inconclusive(name + ": old handler did not reach point E after its peer closed the stream")
			ctl.Release("get.E")
			return
		}
	}
	b, err := e.openAs("B", mB)
	if err != nil {
		r.Fatal("open B: %v", err)
	}
	if ctl.AwaitWaiting("get.E", 1, 5*time.Second) < 1 {
		r.Inconclusive(name + ": old handler did not reach point E")
		ctl.Release("get.E")
		return
	}
	r.Count("schedules_realised", 1)
	// B's headers are here, B is stored, the old handler has not deleted yet
	if e.expectOn(name, "after-store-before-old-delete", b, a) {
		r.Distinct(name + "|send-before-old-delete")
	}
	hitsBefore := ctl.Hits("get.E")
	_ = hitsBefore
	ctl.Release("get.E")
	a.ended(10 * time.Second)
	// the old handler's exit path has run once its HTTP exchange is over; give the table a moment
	time.Sleep(30 * time.Millisecond)
	if n := mcp.VerifListeningStreams(in.Server); n < 1 {
		r.Violation("C11|"+name+"|old-exit-evicted-successor", "after the old stream's handler finished, the session has no registered listening stream although the newer stream is open",
			map[string]interface{}{"registered_streams": n})
	}
	if e.expectOn(name, "after-old-delete", b, a) {
		r.Distinct(name + "|send-after-old-delete")
	}
	b.s.Close()
	if n := e.registered(countOthers(in, 0), 3*time.Second); n != 0 {
		_ = n
	}
}

func countOthers(in *kit.Instance, n int) int { return n }

// scenarioWriterInside: a sender is in the middle of an event on the OLD stream (it holds that stream's write
// lock, parked at a yield point between the lines of the event) while the old stream's peer goes away and a new
// stream registers; the old handler therefore sits between "my stream is over" and its clean-up until the
// writer is released — after the successor has registered.
func scenarioWriterInside(r *vh.Run, in *kit.Instance, point string, queued int, queuedKind string, mA, mB openMode) {
	name := "writer-inside-old@" + point
	if queued > 0 {
		name = fmt.Sprintf("writer-inside-old@%s+%d-%s-queued-behind", point, queued, queuedKind)
	}
	name += modeSuffix(mA, mB)
	ctl := sched.New(8*time.Second, r.Seed)
	ctl.Install()
	defer sched.Uninstall()
	e := newEnv(r, in, ctl)
	a, err := e.openAs("A", mA)
	if err != nil {
		r.Fatal("open A: %v", err)
	}
	settled(a) // A is the established stream of this schedule: its own post-registration step is over
	e.registered(1, 3*time.Second)
	ctl.Hold(point)
	sendDone := make(chan struct{})
	go func() { defer close(sendDone); e.send("parked-on-A") }()
	if ctl.AwaitWaiting(point, 1, 5*time.Second) < 1 {
		r.Inconclusive(name + ": the sender did not reach the yield point")
		ctl.Release(point)
		return
	}
	eBefore := ctl.Hits("get.E")
	a.s.Close() // the old stream's peer goes away while a writer is inside an event
	ctl.AwaitHits("get.E", eBefore+1, 5*time.Second)
	time.Sleep(30 * time.Millisecond) // let the old handler run up to the writer's lock
	// more senders look the OLD stream up now (it is still the registered one) and queue on its write lock behind the
	// old handler: they hold a stale stream across the reconnect and will find it closed. They were sent before
	// the new stream existed, so their own outcome is not judged — what they do to the table is.
	var queuedDone sync.WaitGroup
	for q := 0; q < queued; q++ {
		queuedDone.Add(1)
		go func(q int) {
			defer queuedDone.Done()
			defer func() { recover() }()
			if queuedKind == "request" {
				rctx, rc := context.WithTimeout(context.Background(), 2*time.Second)
				defer rc()
				rq := &mcp.JSONRPCRequest{JSONRPC: "2.0"}
				rq.ID = int64(880000 + q)
				rq.Method = "roots/list"
				in.Server.SendRequest(rctx, e.sid, rq)
				return
			}
			in.Server.SendNotification(e.sid, "notifications/noise", map[string]interface{}{"queued": q})
		}(q)
	}
	if queued > 0 {
		time.Sleep(30 * time.Millisecond)
	}
	// the point stays held for the old stream's writer only: the new stream's own writes must pass
	bch := make(chan *tracked, 1)
	go func() {
		b, err := e.openAs("B", mB)
		if err != nil {
			bch <- nil
			return
		}
		bch <- b
	}()
	var b *tracked
	select {
	case b = <-bch:
	case <-time.After(5 * time.Second):
	}
	if b == nil {
		ctl.Release(point)
		<-sendDone
		r.Inconclusive(name + ": the new stream could not be opened while a writer was parked on the old one")
		return
	}
	r.Count("schedules_realised", 1)
	// release the parked writer: the old handler now finishes its teardown, after the successor registered
	ctl.Release(point)
	<-sendDone
	queuedDone.Wait()
	a.ended(10 * time.Second)
	time.Sleep(30 * time.Millisecond)
	if n := mcp.VerifListeningStreams(in.Server); n < 1 {
		r.Violation("C11|"+name+"|old-exit-evicted-successor", "after the old stream's handler finished (it had been waiting for a writer inside an event), the session has no registered listening stream although the newer stream is open",
			map[string]interface{}{"registered_streams": n})
	}
	if e.expectOn(name, "after-old-teardown", b, a) {
		r.Distinct(name + "|send-after-old-teardown")
	}
	b.s.Close()
}

func scenarioSequential(r *vh.Run, in *kit.Instance, rounds int) {
	e := newEnv(r, in, nil)
	var prev *tracked
	rot := int(r.Seed % 4)
	if rot < 0 {
		rot = -rot
	}
	for i := 0; i < rounds; i++ {
		// how the stream is (re)opened rotates against the close pattern below: every (mode, predecessor open /
		// closed by its peer) combination occurs; "last" is the id of the event received last, i.e. on the previous stream
		m := allModes[(i+rot)%len(allModes)]
		name := "reopen" + modeSuffix(m)
		cur, err := e.openAs(fmt.Sprintf("S%d", i), m)
		if err != nil {
			r.Fatal("open: %v", err)
		}
		if e.expectOn(name, fmt.Sprintf("after-open-%d", min(i, 3)), cur, prev) {
			r.Distinct(fmt.Sprintf("%s|%d|prev-open=%v", name, min(i, 3), prev != nil))
		}
		if prev != nil && !prev.ended(10*time.Second) {
			r.Violation("C11|"+name+"|old-stream-not-closed", "the previous stream stayed open after a newer one registered", nil)
		}
		if i%3 == 2 {
			// peer closes the current one, then reopens
			cur.s.Close()
			deadline := time.Now().Add(5 * time.Second)
			for mcp.VerifListeningStreams(in.Server) > 0 && time.Now().Before(deadline) {
				time.Sleep(2 * time.Millisecond)
			}
			prev = nil
			continue
		}
		prev = cur
	}
	if prev != nil {
		e.expectOn("reopen", "final", prev)
		prev.s.Close()
	}
}

func min(a, b int) int {
	if a < b {
		return a
	}
	return b
}

// storm: free-running reconnects of one session with concurrent senders and seeded delays at the yield points.
func storm(r *vh.Run, in *kit.Instance, idx int, reconnects int) {
	ctl := sched.New(2*time.Second, r.Seed+int64(idx))
	for _, p := range []string{"get.H", "get.T", "get.E"} {
		ctl.RandomDelay(p, 0.5, 3*time.Millisecond)
	}
	ctl.Install()
	defer sched.Uninstall()
	e := newEnv(r, in, ctl)
	rng := r.Rand(fmt.Sprintf("storm-%d", idx))
	stop := make(chan struct{})
	var bg sync.WaitGroup
	// background senders: their sends may fail while no stream is registered; only counted
	for s := 0; s < 2; s++ {
		bg.Add(1)
		go func(s int) {
			defer bg.Done()
			i := 0
			for {
				select {
				case <-stop:
					return
				default:
				}
				i++
				safeNoise(r, in, e.sid, fmt.Sprintf("%d-%d", s, i))
				time.Sleep(time.Duration(200+rng.Intn(400)) * time.Microsecond)
			}
		}(s)
	}
	var prev *tracked
	for i := 0; i < reconnects; i++ {
		if prev != nil && rng.Intn(3) == 0 {
			// the peer drops its stream just before / while reopening
			go prev.s.Close()
		}
		// most reconnects carry the id of the event received last, as a real client's do
		m := stormMode(rng)
		name := "storm" + modeSuffix(m)
		cur, err := e.openAs(fmt.Sprintf("R%d", i), m)
		if err != nil {
			r.Violation("C11|"+name+"|open-refused", err.Error(), nil)
			break
		}
		// headers received: from now on a send must reach cur
		if !e.expectOn(name, "after-headers", cur, prev) {
			break
		}
		r.Count("storm_reconnects_judged_open="+m.String(), 1)
		prev = cur
	}
	close(stop)
	bg.Wait()
	if prev != nil {
		time.Sleep(20 * time.Millisecond)
		e.expectOn("storm", "final", prev)
		prev.s.Close()
	}
	r.Distinct(fmt.Sprintf("storm|%d", idx%8))
	for _, o := range ctl.Order() {
		_ = o
	}
}

var t0 = time.Now()

func tm(what string) {
	if os.Getenv("C11_TIMING") != "" {
		fmt.Fprintf(os.Stderr, "TIMING %s %.1fs\n", what, time.Since(t0).Seconds())
	}
}

func main() {
	kit.MaybeServeStdioChild()
	kit.Silence()
	r := vh.NewRun("C11", "exploration")
	in := kit.Start(kit.SJSON, kit.Opts{})
	defer in.Close()
	kit.StdFixture(in)
	// how each of the two streams is opened is a dimension of every schedule: plain>plain as often as before, every
	// other (A, B) combination of {plain, last, stale, garbage} besides
	for _, mA := range allModes {
		for _, mB := range allModes {
			reps := r.Pick(1, 4)
			if mA == mPlain && mB == mPlain {
				reps = r.Pick(3, 20)
			}
			for i := 0; i < reps; i++ {
				scenarioHT(r, in, mA, mB)
				scenarioE(r, in, false, mA, mB)
				scenarioE(r, in, true, mA, mB)
				scenarioWriterInside(r, in, "sse.write.afterid", 0, "", mA, mB)
				scenarioWriterInside(r, in, "sse.write.beforeterm", 0, "", mA, mB)
				scenarioWriterInside(r, in, "sse.write.afterid", 1, "notification", mA, mB)
				scenarioWriterInside(r, in, "sse.write.beforeterm", 3, "notification", mA, mB)
				scenarioWriterInside(r, in, "sse.write.afterid", 2, "request", mA, mB)
			}
		}
	}
	tm("pairs")
	pendingAll(r)
	tm("pending")
	dryFailAll(r)
	tm("dry-fail")
	resumeAll(r)
	tm("resume")
	scenarioSequential(r, in, r.Pick(24, 96))
	for i := 0; i < r.Pick(6, 60); i++ {
		storm(r, in, i, r.Pick(40, 80))
	}
	tm("seq+storm")
	overlapAll(r)
	tm("overlap")
	r.Sample(map[string]interface{}{"scenario": "E-cancelled", "schedule": []string{"open A", "hold get.E", "open B (cancels A, stores B)", "old handler parked at E", "send -> must arrive on B", "release E (old handler deletes its registration)", "send -> must still arrive on B"}})
	r.Sample(map[string]interface{}{"scenario": "H-T", "schedule": []string{"open A", "hold get.H", "open B: headers flushed?", "if B's headers are at the peer while the handler is parked before the table store: send -> must arrive on B", "release"}})
	r.Finish("one Streamable session, listening streams opened / closed / reopened by a raw peer; schedules enumerated at the instrumented points get.H (new handler before the table store), get.T (after it), get.E (old handler woke, before its table delete): send placed after 'new headers received' in every gap {before store, after store before old delete, after old delete, old stream closed by its peer before/while the new one registers}; a writer parked inside an event on the old stream (holding its write lock) while the old peer leaves and the successor registers, alone and with 1-3 further notifications / server requests queued on the old stream's lock behind the old handler (stale stream held across the reconnect); sequential reopen chains; free-running reconnect storms with seeded delays at the three points and concurrent senders. Every send made after the new stream's headers were received must succeed and arrive on that stream only. "+
		"HOW A STREAM IS OPENED is a dimension of every family: plain GET, or with a Last-Event-ID that is the id of the event the session's client received last / an id received earlier (stale) / an id never issued (garbage: own format, numeric, 2000 digits, odd characters); the ids are real (every session first gets a stream on which two notifications are delivered and read). H-T, E, writer-inside-old run for all 16 (old, new) combinations, reopen chains rotate the mode against predecessor open / closed by its peer, the storms draw it per reconnect (half of them 'last'), the overlap schedules run all-plain, all-last and seeded-mixed. resume-superseded (each on its own server): [predecessor open / closed by its peer;] stream A (any mode) registers and is parked at get.T — headers at the peer, post-registration (resumption) step not run —, stream B (any mode) registers, superseding A, and is parked at get.T too; then B runs to completion and A continues / A continues while B is still parked, then B / B completes, is closed by its own peer and has removed itself, A continues, a third stream opens; judged sends after every step and one racing with A's continuation; oracle of the overlap schedules. The stream/resumed notices a server writes on a resumed stream are counted, never taken for a delivery (deliveries are matched by nonce). "+
		"PENDING ACROSS A LATE TEARDOWN (pending.go, each schedule on its own server): the teardown of a replaced stream A is delayed past the registration of its successor B by {A's raw-TCP peer stops reading inside a 16 MB event so that the event's writer blocks in the socket holding A's write lock — released by the peer reading on (A then ends with the server's end of stream) or dropping the connection; a writer of A parked by the yield controller at sse.write.afterid / sse.write.beforeterm while all other writers pass the point, A replaced while its peer is connected / after its peer left; A's handler parked at get.E, same two variants} x (A, B) open modes; once B's headers are received and A's handler is known to have woken, the server issues SendRequest (own id / generated id, custom method) and ListRoots from a tool handler (roots/list): each frame must arrive on B; the delay is checked to be still in force, released, the teardown observed (A ended by the server; peer gone: writer returned + pause); only then the client answers by POST; further requests are issued after the teardown and after B was itself replaced by C resuming with the last event id received on B. Every such call must return the client's answer (no error, no nil result, not before the answer was posted); notifications go to the live stream only and it stays registered. Distinct = pending|(delay, variant, open modes)|API@phase answered. "+
			"SENDS THAT CANNOT SUCCEED ON THE NEWEST STREAM (dryfail.go, each schedule on its own server): the session's live stream — the first stream the session ever opened, or one reopened 1..n times (predecessor replaced while open / closed by its peer first, any open mode; further reopens between the sends) — is given, in seeded order, sends whose payload json.Marshal rejects (NaN, +Inf, -Inf, chan, func, cyclic map, complex, failing Marshaler, nested NaN; as params of SendRequest own-id / generated-id, as the request ID, as params of SendNotification and BroadcastNotification), SendRequest / ListRoots-in-a-tool-handler under an already cancelled context, and the same calls under a 60 ms deadline that the client does not answer (or answers after the call returned). The outcome of these calls is counted, not judged. After EACH of them: a notification must succeed and arrive on the live stream, a broadcast must not fail and must arrive on it, 1-3 server requests (SendRequest own-id / generated-id, ListRoots) must go out on it and return the client's answer, exactly one stream is registered, and the server has not ended the live stream itself. Distinct = dry-fail|kind of failing send|(position of the live stream in the session, how it replaced its predecessor, open mode). "+
		"Several streams of one session set up at the same time (each schedule on its own server): [stream A open;] 2/3/4 GETs parked together at get.H, released in enumerated orders one by one (next release after the previous headers) or in a burst, superseded handlers optionally parked at get.T/get.E and let go in a seeded order, judged sends between the steps and unjudged notifications / server requests in flight; seeded walks over {start a GET, release a parked GET, let a parked handler go, send}; free-running rounds of 2-4 concurrent openers with seeded delays. After all set-ups finished and all headers were received: a send succeeds and arrives on exactly one stream which no other opened stream clearly follows (X clearly precedes Y when X's headers were received before Y was started; any single winner among truly concurrent opens), every other opened stream was ended by the server, exactly one stream is registered, a further send arrives on the survivor only. Distinct = (scenario incl. open modes, gap) judged, resp. (overlap / resume class[, walk pattern]) judged.",
		[]string{"pending.go: a server request is judged only if it was issued after the live stream's response headers had been received; requests that went out on the replaced stream are not judged; a call that ends with its context (25 s) is a watchdog and makes the schedule inconclusive; a delay that could not be set up or did not last until the requests were out makes the schedule inconclusive (counted in pending_schedules_inconclusive)", "a GET with Last-Event-ID is issued only with an id taken from an event really received on an earlier stream of the session (or, for 'garbage', one of a fixed list of never-issued values); when the events carried no id the GET is plain and counted as such", "a schedule that the implementation makes impossible (headers not visible before the table store) is recorded as not realisable, not as a failure", "delivery is awaited up to 5 s on loopback (10 s in the overlap schedules)", "a superseded stream that stays open is reported only when a later send/deliver cycle on the owning stream completed meanwhile (15 s watchdog first); an open that merely answers slowly makes the schedule inconclusive"})
}
