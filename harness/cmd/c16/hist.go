package main

import (
	"fmt"
	"math/rand"
)

// Client kinds of part B.
const (
	ckStreamable = "streamable"
	ckLegacy     = "legacy-sse"
	ckStdio      = "stdio"
)

var clientKinds = []string{ckStreamable, ckLegacy, ckStdio}

// The seven operations of the statement.
var allOps = []string{"ListTools", "CallTool", "ListPrompts", "GetPrompt", "ListResources", "ReadResource", "SendRootsListChangedNotification"}

// Server behaviours for an Initialize step.
const (
	mHealthy = "healthy"        // valid answer (+ session header on Streamable)
	mNoSess  = "healthy-nosess" // Streamable only: valid answer without Mcp-Session-Id
	mError   = "error"          // JSON-RPC error answer
	mMalA    = "malformed"      // answer text is not JSON
	mMalB    = "odd-result"     // JSON, but the result is not an initialize result (outcome left open)
	mDown    = "down"           // connection refused / reset; stdio: the child exits without answering
	mFault   = "fault"          // healthy server with ONE fault injected at step Step.At of the handshake (faults.go)
)

// Step is one element of a client call history.
type Step struct {
	Kind string `json:"k"`              // init | op | getstate | close | srvdie (the server dies between two client calls)
	Op   string `json:"op,omitempty"`   // operation name for k=op
	Mode string `json:"mode,omitempty"` // server behaviour for k=init
	Var  int    `json:"var,omitempty"`  // answer-shape variant
	At    string `json:"at,omitempty"`    // mode=fault: the step of the handshake at which the fault is injected
	Fault string `json:"fault,omitempty"` // mode=fault: the kind of fault
}

func (s Step) String() string {
	switch s.Kind {
	case "init":
		if s.Mode == mFault {
			return fmt.Sprintf("Initialize[fault at=%s kind=%s/%d]", s.At, s.Fault, s.Var)
		}
		return fmt.Sprintf("Initialize[%s/%d]", s.Mode, s.Var)
	case "op":
		return s.Op
	case "getstate":
		return "GetState"
	case "srvdie":
		return "<server dies>"
	default:
		return "Close"
	}
}

// History is one generated call history for one client.
type History struct {
	Idx    int    `json:"idx"`
	Client string `json:"client"`
	GetSSE bool   `json:"get_sse,omitempty"` // Streamable: leave the listening-stream attempt enabled (library default)
	Fixed  string `json:"fixed,omitempty"`   // name of a hand-written history
	Steps  []Step `json:"steps"`
}

// StepObs is what the recorder saw for one step.
type StepObs struct {
	Step
	I      int      `json:"i"`
	OK     bool     `json:"ok"`              // the call returned a nil error (always true for getstate)
	Err    string   `json:"err,omitempty"`   // error text
	Touch  int      `json:"touch"`           // requests / connection attempts / spawned processes / stdin lines recorded during the step
	Wire   []string `json:"wire,omitempty"`  // their summaries
	State  string   `json:"state"`           // GetState() after the step
	Note   string   `json:"note,omitempty"`  // recorder remarks
	Fired  int      `json:"fired,omitempty"` // mode=fault: how often the planned fault was actually applied during the step
	Unsure bool     `json:"unsure,omitempty"` // the recorder could not establish the wire count (watchdog)
	Ms     int64    `json:"ms,omitempty"`     // wall time of the step incl. wire accounting (information only)
}

// HistObs is the recorded execution of one history.
type HistObs struct {
	Idx     int       `json:"idx"`
	Client  string    `json:"client"`
	GetSSE  bool      `json:"get_sse,omitempty"`
	Fixed   string    `json:"fixed,omitempty"`
	State0  string    `json:"state0"` // GetState() of the fresh client
	Steps   []StepObs `json:"steps"`
	Problem string    `json:"problem,omitempty"` // recorder-side problem (history not judged)
}

func initStep(mode string, v int) Step { return Step{Kind: "init", Mode: mode, Var: v} }
func opStep(op string) Step            { return Step{Kind: "op", Op: op} }

var (
	stGet   = Step{Kind: "getstate"}
	stClose = Step{Kind: "close"}
	// stDie is not a client call: the server goes away between two calls (stdio: the server process is killed and
	// reaped; HTTP: every connection is cut and the server resets connections until the next Initialize step
	// scripts its behaviour again).
	stDie = Step{Kind: "srvdie"}
)

func allOpSteps() []Step {
	out := make([]Step, 0, len(allOps))
	for _, o := range allOps {
		out = append(out, opStep(o))
	}
	return out
}

func cat(parts ...[]Step) []Step {
	var out []Step
	for _, p := range parts {
		out = append(out, p...)
	}
	return out
}

func failModes(client string) []string {
	return []string{mError, mMalA, mMalB, mDown}
}

// fixedHistories are the hand-written corner histories every run executes first.
func fixedHistories(client string) []History {
	var hs []History
	add := func(name string, getSSE bool, steps []Step) {
		hs = append(hs, History{Client: client, Fixed: name, GetSSE: getSSE && client == ckStreamable, Steps: steps})
	}
	for _, o := range allOps {
		add("fresh-"+o, false, []Step{stGet, opStep(o), stGet})
	}
	add("full-cycle", false, cat([]Step{initStep(mHealthy, 0), stGet}, allOpSteps(), []Step{initStep(mHealthy, 0), stGet, stClose, stGet}, allOpSteps(), []Step{stGet}))
	add("full-cycle-default-options", true, cat([]Step{initStep(mHealthy, 0), stGet}, allOpSteps(), []Step{initStep(mHealthy, 1), initStep(mError, 0), stGet, stClose, stGet}, allOpSteps()))
	for _, fm := range failModes(client) {
		for v := 0; v < 2; v++ {
			add(fmt.Sprintf("failed-handshake-%s-%d", fm, v), false, cat([]Step{initStep(fm, v), stGet}, allOpSteps(), []Step{stGet, initStep(mHealthy, 0), stGet, opStep("ListTools"), opStep("SendRootsListChangedNotification")}))
		}
	}
	add("close-first", false, cat([]Step{stClose, stGet}, allOpSteps(), []Step{initStep(mHealthy, 0), stGet}))
	add("reinit-after-close", false, []Step{initStep(mHealthy, 0), stClose, stGet, initStep(mHealthy, 0), stGet, opStep("ListTools"), stClose, opStep("CallTool")})
	add("second-initialize-variants", false, []Step{initStep(mHealthy, 0), initStep(mHealthy, 0), stGet, initStep(mError, 0), stGet, initStep(mMalA, 1), stGet, initStep(mDown, 0), stGet, opStep("ListTools")})
	add("server-dies-after-handshake", false, cat([]Step{initStep(mHealthy, 0), stGet, stDie, stGet, stClose, stGet}, allOpSteps(), []Step{initStep(mHealthy, 0), stGet}))
	add("server-dies-then-calls", false, []Step{initStep(mHealthy, 0), stDie, opStep("ListTools"), opStep("SendRootsListChangedNotification"), initStep(mHealthy, 0), stGet, stClose, stGet, opStep("ListTools"), opStep("CallTool"), stClose, stGet})
	add("server-dies-before-handshake", false, []Step{stDie, stGet, opStep("ListTools"), initStep(mHealthy, 0), stGet, stClose, stGet, opStep("ListPrompts")})
	add("server-dies-after-failed-handshake", false, []Step{initStep(mError, 0), stDie, stGet, opStep("ListTools"), stClose, stGet, opStep("ReadResource")})
	// a fault at every step of the handshake while the earlier steps succeed (faults.go)
	for _, fc := range faultCells(client) {
		for v := 0; v < 4; v += 2 { // Streamable: initialize answered as JSON body (0) / as event stream (2)
			if v > 0 && client != ckStreamable {
				continue
			}
			getSSE := fc.At == atGet
			add(fmt.Sprintf("fault-%s-%s-%d", fc.At, fc.Fault, v), getSSE, cat([]Step{faultStep(fc, v), stGet}, allOpSteps(),
				[]Step{stGet, initStep(mHealthy, 0), stGet, opStep("ListTools"), opStep("SendRootsListChangedNotification"), initStep(mHealthy, 0), stClose, stGet, opStep("CallTool")}))
		}
	}
	if client == ckStreamable {
		add("stateless-server", false, cat([]Step{initStep(mNoSess, 0), stGet}, allOpSteps(), []Step{initStep(mNoSess, 0), stClose}, allOpSteps()))
	}
	return hs
}

// genHistories returns n histories for a client kind: the fixed ones followed by seeded random ones.
func genHistories(rng *rand.Rand, client string, n int) []History {
	hs := fixedHistories(client)
	if len(hs) > n {
		hs = hs[:n]
	}
	type wstep struct {
		w float64
		f func() Step
	}
	modes := []string{mError, mMalA, mMalB, mDown}
	cells := faultCells(client)
	table := []wstep{
		{4.0, func() Step {
			if client == ckStreamable && rng.Intn(5) == 0 {
				return initStep(mNoSess, rng.Intn(4))
			}
			return initStep(mHealthy, rng.Intn(4))
		}},
		{3.0, func() Step { return initStep(modes[rng.Intn(len(modes))], rng.Intn(4)) }},
		{3.0, func() Step { return faultStep(cells[rng.Intn(len(cells))], rng.Intn(4)) }},
		{7.0, func() Step { return opStep(allOps[rng.Intn(len(allOps))]) }},
		{1.0, func() Step { return stGet }},
		{1.5, func() Step { return stClose }},
		{1.2, func() Step { return stDie }},
	}
	total := 0.0
	for _, t := range table {
		total += t.w
	}
	pick := func() Step {
		x := rng.Float64() * total
		for _, t := range table {
			if x < t.w {
				return t.f()
			}
			x -= t.w
		}
		return stGet
	}
	for len(hs) < n {
		k := 1 + rng.Intn(10)
		h := History{Client: client}
		if client == ckStreamable {
			h.GetSSE = rng.Intn(4) == 0
		}
		for i := 0; i < k; i++ {
			if i == 0 && rng.Intn(3) == 0 {
				h.Steps = append(h.Steps, initStep(mHealthy, rng.Intn(4)))
				continue
			}
			h.Steps = append(h.Steps, pick())
		}
		if client == ckStreamable && !h.GetSSE {
			// a fault at the listening-stream step needs the listening stream
			for _, st := range h.Steps {
				if st.Mode == mFault && st.At == atGet {
					h.GetSSE = true
				}
			}
		}
		hs = append(hs, h)
	}
	for i := range hs {
		hs[i].Idx = i
	}
	return hs
}
