package main

import (
	"fmt"
	"strings"

	"verifharness/lib/vh"
)

// Reference client FSM (DESIGN.md Appendix A): two stable states; "connected" is never stable.
const (
	sDisconnected = "disconnected"
	sInitialized  = "initialized"
)

// model is the deterministic reference machine. phase says why it is in the disconnected state.
type model struct {
	state string
	phase string // before-handshake | after-close | after-failed-handshake (meaningful while disconnected)
}

func newModel() *model { return &model{state: sDisconnected, phase: "before-handshake"} }

// initialize applies an Initialize whose observed outcome was ok / not ok. A second handshake leaves the
// machine where it is (it must be refused).
func (m *model) initialize(ok bool) {
	if m.state == sInitialized {
		return
	}
	if ok {
		m.state = sInitialized
		m.phase = ""
		return
	}
	m.state = sDisconnected
	m.phase = "after-failed-handshake"
}

func (m *model) close() {
	m.state = sDisconnected
	m.phase = "after-close"
}

// opAllowed: operations are allowed exactly in the initialized state.
func (m *model) opAllowed() bool { return m.state == sInitialized }

func looksNotInitialized(errText string) bool {
	e := strings.ToLower(errText)
	return strings.Contains(e, "not initialized") || strings.Contains(e, "not been initialized") || strings.Contains(e, "uninitialized")
}

func looksAlreadyInitialized(errText string) bool {
	return strings.Contains(strings.ToLower(errText), "already initialized")
}

type judgeStats struct {
	// handshakes with a fault at one step (faults.go)
	faultInitFail, faultInitFailLate, faultInitOK, faultNotReached int // Late = failed at a step after the initialize answer had arrived
	opsRefusedAfterFault, stateAfterFault                          int
	reinitOKAfterFault, reinitFailAfterFault                       int
	opsOKAfterReinit                                               int
	cells                                                          map[string]bool // (step, kind, outcome) observed with the fault applied

	histories, steps                     int
	opsRefused, opsOK, opsFailedAfter    int
	initOK, initFail, secondInitRefused  int
	unexpectedInitFail, reinitAfterClose int
	d23                                  int
	srvDied, srvDiedInitialized          int // server deaths injected (all / while the model was initialized)
	closeAfterDeath, opsAfterDeath       int // Close / operations while the server was dead and the model initialized
}

// judgeHistory replays the recorded history against the model and reports every disagreement.
func judgeHistory(r *vh.Run, h *HistObs, st *judgeStats) {
	ck := h.Client
	st.histories++
	if h.Problem != "" {
		r.Inconclusive(fmt.Sprintf("client %s history %d not judged: %s", ck, h.Idx, h.Problem))
		return
	}
	m := newModel()
	wit := func(i int) map[string]interface{} {
		return map[string]interface{}{"client": ck, "history": h.Idx, "fixed": h.Fixed, "get_sse_enabled": h.GetSSE, "failing_step": i, "initial_state": h.State0, "steps": h.Steps}
	}
	if h.State0 != sDisconnected {
		r.Violation(fmt.Sprintf("C16|client|%s|state|after=new|expected=%s|got=%s", ck, sDisconnected, h.State0),
			fmt.Sprintf("%s client: a fresh client reports %q", ck, h.State0), wit(-1))
	}
	fresh := true     // nothing happened yet that could have damaged the transport
	everClosed := false
	// uncertain: the server died while the client was initialized. Whether the client notices (and falls back to
	// disconnected) or not (and stays initialized) the statement leaves open; until the next Close or successful
	// Initialize both are accepted and calls are only counted. Close ends it: the client must be uninitialized.
	uncertain := false
	// lastFault: the cell of the handshake that failed with its fault applied and after which nothing but
	// operations / GetState happened; afterReinit: a handshake succeeded on a client that had such a failure
	lastFault, afterReinit := "", false
	if st.cells == nil {
		st.cells = map[string]bool{}
	}
	for i := range h.Steps {
		s := &h.Steps[i]
		st.steps++
		r.Eval(1)
		before, phase := m.state, m.phase
		class := ""
		if s.Unsure {
			r.Inconclusive(fmt.Sprintf("client %s history %d step %d (%s): wire count not established: %s", ck, h.Idx, i, s.Step, s.Note))
		}
		switch s.Kind {
		case "srvdie":
			class = "server-died"
			fresh = false
			st.srvDied++
			if m.state == sInitialized {
				st.srvDiedInitialized++
				uncertain = true
			}
			r.Distinct(fmt.Sprintf("client|%s|server-dies|%s|%s", ck, before, phase))
		case "init":
			if uncertain {
				class = "init-after-server-death"
				if s.OK {
					if s.Mode == mError || s.Mode == mMalA || s.Mode == mDown {
						r.Violation(fmt.Sprintf("C16|client|%s|initialize|answer=%s|reported-success", ck, s.Mode),
							fmt.Sprintf("%s client: Initialize returned success although the server's behaviour was %q", ck, s.Mode), wit(i))
					}
					if s.Mode == mFault && s.Fired > 0 && faultPrecludesAnswer(s.At) {
						r.Violation(fmt.Sprintf("C16|client|%s|initialize|fault-at=%s|%s|reported-success", ck, s.At, s.Fault),
							fmt.Sprintf("%s client: Initialize returned success although the handshake was cut at step %q (%s) before any initialize answer arrived", ck, s.At, s.Fault), wit(i))
					}
					if s.Mode == mFault && s.Fired > 0 && faultKillsServer(s.Fault) {
						r.Distinct(fmt.Sprintf("client|%s|init-after-server-death|fault=%s/%s|ok-server-gone-again", ck, s.At, s.Fault))
						break // initialized again, and the server is gone again: still open
					}
					// the client noticed the death and shook hands again (or its server came back): initialized for certain
					m.state, m.phase = sInitialized, ""
					uncertain = false
				}
				r.Distinct(fmt.Sprintf("client|%s|init-after-server-death|mode=%s|ok=%v", ck, s.Mode, s.OK))
				break
			}
			if before == sInitialized {
				class = "second-initialize"
				if s.OK {
					r.Violation(fmt.Sprintf("C16|client|%s|second-initialize|accepted", ck),
						fmt.Sprintf("%s client: Initialize on an initialized client returned no error (%d requests on the wire)", ck, s.Touch), wit(i))
					// the client accepted it; the model stays initialized (state check below still applies)
				} else {
					st.secondInitRefused++
					if s.Touch > 0 && !s.Unsure {
						r.Violation(fmt.Sprintf("C16|client|%s|second-initialize|network-touched", ck),
							fmt.Sprintf("%s client: a refused second Initialize put %d request(s) on the wire: %v", ck, s.Touch, s.Wire), wit(i))
					}
				}
				r.Distinct(fmt.Sprintf("client|%s|second-init|mode=%s", ck, s.Mode))
				break
			}
			if !s.OK && looksAlreadyInitialized(s.Err) {
				r.Violation(fmt.Sprintf("C16|client|%s|initialize|%s|refused-as-already-initialized", ck, phase),
					fmt.Sprintf("%s client: Initialize on an uninitialized client (%s) was refused with %q (%d request(s) on the wire)", ck, phase, s.Err, s.Touch), wit(i))
			}
			if lastFault != "" && s.Mode != mFault {
				// the fault is gone: either the handshake succeeds now, or the client stays consistently uninitialized (both conform)
				if s.OK {
					st.reinitOKAfterFault++
					afterReinit = true
				} else {
					st.reinitFailAfterFault++
				}
				r.Distinct(fmt.Sprintf("client|%s|init-after-fault|%s|mode=%s|ok=%v", ck, lastFault, s.Mode, s.OK))
			}
			lastFault = ""
			if s.Mode == mFault {
				cell := fmt.Sprintf("at=%s|%s", s.At, s.Fault)
				switch {
				case s.Fired == 0:
					st.faultNotReached++
				case s.OK:
					st.faultInitOK++
					st.cells[cell+"|ok"] = true
					if faultPrecludesAnswer(s.At) {
						r.Violation(fmt.Sprintf("C16|client|%s|initialize|fault-at=%s|%s|reported-success", ck, s.At, s.Fault),
							fmt.Sprintf("%s client: Initialize returned success although the handshake was cut at step %q (%s) before any initialize answer arrived", ck, s.At, s.Fault), wit(i))
					}
				default:
					st.faultInitFail++
					if !faultPrecludesAnswer(s.At) {
						st.faultInitFailLate++
					}
					st.cells[cell+"|failed"] = true
					lastFault = cell
				}
				r.Distinct(fmt.Sprintf("client|%s|init-fault|%s|%s|fired=%v|ok=%v", ck, phase, cell, s.Fired > 0, s.OK))
			}
			if s.OK {
				class = "init-ok"
				st.initOK++
				if everClosed {
					st.reinitAfterClose++
				}
				if s.Mode == mError || s.Mode == mMalA || s.Mode == mDown {
					r.Violation(fmt.Sprintf("C16|client|%s|initialize|answer=%s|reported-success", ck, s.Mode),
						fmt.Sprintf("%s client: Initialize returned success although the server's behaviour was %q", ck, s.Mode), wit(i))
				}
			} else {
				class = "init-fail-" + s.Mode
				st.initFail++
				if (s.Mode == mHealthy || s.Mode == mNoSess) && fresh {
					st.unexpectedInitFail++
					r.Inconclusive(fmt.Sprintf("client %s history %d step %d: Initialize against a healthy scripted server failed on an undamaged client: %s", ck, h.Idx, i, s.Err))
				}
			}
			if s.Mode != mHealthy && s.Mode != mNoSess {
				fresh = false
			}
			if s.Mode == mFault {
				class = fmt.Sprintf("init-fault-%s-%s-ok=%v", s.At, s.Fault, s.OK)
			}
			m.initialize(s.OK)
			if s.OK && s.Mode == mFault && s.Fired > 0 && faultKillsServer(s.Fault) {
				// the handshake was reported successful and its server is gone: same open situation as a server death
				uncertain = true
				st.srvDiedInitialized++
			}
			r.Distinct(fmt.Sprintf("client|%s|init|%s|mode=%s|ok=%v", ck, phase, s.Mode, s.OK))
		case "op":
			if uncertain {
				class = "op-after-server-death"
				st.opsAfterDeath++
				r.Distinct(fmt.Sprintf("client|%s|op=%s|after-server-death|ok=%v", ck, s.Op, s.OK))
				break
			}
			if !m.opAllowed() {
				class = "op-refused"
				switch {
				case s.Touch > 0 && !s.Unsure:
					if s.Op == "SendRootsListChangedNotification" {
						st.d23++
					}
					r.Violation(fmt.Sprintf("C16|client|%s|op=%s|%s|network-touched", ck, s.Op, phase),
						fmt.Sprintf("%s client: %s in the uninitialized state (%s) returned err=%q and put %d item(s) on the wire: %v", ck, s.Op, phase, s.Err, s.Touch, s.Wire), wit(i))
				case s.OK:
					r.Violation(fmt.Sprintf("C16|client|%s|op=%s|%s|no-error", ck, s.Op, phase),
						fmt.Sprintf("%s client: %s in the uninitialized state (%s) returned no error", ck, s.Op, phase), wit(i))
				case !looksNotInitialized(s.Err):
					r.Violation(fmt.Sprintf("C16|client|%s|op=%s|%s|other-error", ck, s.Op, phase),
						fmt.Sprintf("%s client: %s in the uninitialized state (%s) failed with %q, which is not a not-initialized error", ck, s.Op, phase, s.Err), wit(i))
				default:
					st.opsRefused++
					if lastFault != "" {
						st.opsRefusedAfterFault++
						r.Distinct(fmt.Sprintf("client|%s|op-refused-after-fault|%s", ck, lastFault))
					}
				}
				r.Distinct(fmt.Sprintf("client|%s|op=%s|%s|%s", ck, s.Op, before, phase))
			} else {
				class = "op"
				if s.OK {
					st.opsOK++
					if afterReinit {
						st.opsOKAfterReinit++
					}
					r.Distinct(fmt.Sprintf("client|%s|op=%s|%s|ok", ck, s.Op, before))
				} else {
					st.opsFailedAfter++
					if looksNotInitialized(s.Err) {
						r.Violation(fmt.Sprintf("C16|client|%s|op=%s|after-handshake|refused", ck, s.Op),
							fmt.Sprintf("%s client: %s after a successful handshake was refused as not initialized: %s", ck, s.Op, s.Err), wit(i))
					}
				}
			}
		case "close":
			class = "close"
			if uncertain {
				class = "close-after-server-death"
				st.closeAfterDeath++
				uncertain = false
			}
			m.close()
			lastFault, afterReinit = "", false
			fresh = false
			everClosed = true
			r.Distinct(fmt.Sprintf("client|%s|close|%s", ck, before))
		case "getstate":
			class = "getstate"
			if lastFault != "" {
				st.stateAfterFault++
			}
			r.Distinct(fmt.Sprintf("client|%s|getstate|%s|%s", ck, before, phase))
		}
		if uncertain {
			if s.State != sInitialized && s.State != sDisconnected {
				r.Count("client_"+ck+"_other_state_while_server_dead", 1)
			}
			continue
		}
		if s.State != m.state {
			r.Violation(fmt.Sprintf("C16|client|%s|state|after=%s|expected=%s|got=%s", ck, class, m.state, s.State),
				fmt.Sprintf("%s client: after step %d (%s, err=%q) GetState reports %q, the reference machine is %q", ck, i, s.Step, s.Err, s.State, m.state), wit(i))
		}
	}
}
