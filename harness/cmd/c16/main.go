// C16 — handshake: version negotiation, advertised capabilities, client state machine.
//
// Part A (server_part.go, reghist.go): raw peers send initialize with every class of protocolVersion to the seven server
// configurations under every registration combination and judge version, serverInfo and capability set.
// Part B (hist.go, histchild.go, model.go, recserver.go, recchild.go): seeded call histories on the three
// client kinds against library-free recording servers; a child process per client kind executes and records,
// the parent replays the record against the reference FSM.
package main

import (
	"bufio"
	"bytes"
	"encoding/json"
	"fmt"
	"os"
	"path/filepath"
	"sort"
	"strings"
	"sync"
	"time"

	"verifharness/lib/kit"
	"verifharness/lib/vh"
)

type childLine struct {
	Begin *int     `json:"begin,omitempty"`
	Obs   *HistObs `json:"obs,omitempty"`
	Done  *int     `json:"done,omitempty"`
}

// clientPart generates the histories of one client kind, has a child execute them and judges the record.
func clientPart(r *vh.Run, ck string, n int, st *judgeStats) {
	hs := genHistories(r.Rand("hist-"+ck), ck, n)
	byIdx := map[int]History{}
	for _, h := range hs {
		byIdx[h.Idx] = h
	}
	remaining := hs
	sampled := false
	for attempt := 0; attempt < 6 && len(remaining) > 0; attempt++ {
		tag := fmt.Sprintf("hist-%s-%d", ck, attempt)
		histFile := filepath.Join(r.OutDir, tag+".json")
		b, _ := json.Marshal(remaining)
		if err := os.WriteFile(histFile, b, 0o644); err != nil {
			r.Fatal("write %s: %v", histFile, err)
		}
		recDir := filepath.Join(r.OutDir, "stdio-rec")
		res := r.SpawnChild(histChildRole, tag, nil, []string{"VH_C16_HISTFILE=" + histFile, "VH_C16_RECDIR=" + recDir},
			nil, time.Duration(r.Pick(300, 840))*time.Second)
		begun, finished := map[int]bool{}, map[int]bool{}
		clean := false
		sc := bufio.NewScanner(bytes.NewReader(res.Stdout()))
		sc.Buffer(make([]byte, 1<<20), 256<<20)
		for sc.Scan() {
			var cl childLine
			if json.Unmarshal(sc.Bytes(), &cl) != nil {
				continue
			}
			switch {
			case cl.Begin != nil:
				begun[*cl.Begin] = true
			case cl.Obs != nil:
				finished[cl.Obs.Idx] = true
				judgeHistory(r, cl.Obs, st)
				if !sampled && cl.Obs.Fixed == "full-cycle" {
					sampled = true
					r.Sample(map[string]interface{}{"part": "client", "history": cl.Obs})
				}
			case cl.Done != nil:
				clean = true
			}
		}
		os.Remove(histFile)
		if clean && res.ExitCode == 0 && !res.TimedOut {
			remaining = nil
			break
		}
		// the child died or hung: the histories in flight are the observation
		var inflight []History
		var next []History
		for _, h := range remaining {
			switch {
			case finished[h.Idx]:
			case begun[h.Idx]:
				inflight = append(inflight, h)
			default:
				next = append(next, h)
			}
		}
		stderr := res.Stderr()
		wit := map[string]interface{}{"client": ck, "child": res.Describe(), "crash_line": vh.CrashLine(stderr), "first_library_frame": vh.FirstLibFrame(stderr), "histories_in_flight": inflight, "stderr_file": res.StderrPath}
		if !res.TimedOut && strings.Contains(vh.CrashLine(stderr), "recServer: listen") {
			// the recording server of the harness got no listening port (loopback ports of a shared machine in
			// TIME_WAIT): nothing was learnt about the client
			r.Inconclusive(fmt.Sprintf("client %s: the history child could not open a listening port (%s); %d histories in flight, %d not started", ck, vh.CrashLine(stderr), len(inflight), len(next)))
		} else if res.TimedOut {
			r.Inconclusive(fmt.Sprintf("client %s: history child exceeded its watchdog (%s); %d histories in flight, %d not started; goroutine dump in %s", ck, res.Describe(), len(inflight), len(next), res.StderrPath))
		} else {
			frame := vh.FirstLibFrame(stderr)
			if frame == "" {
				frame = "unknown-frame"
			}
			r.Violation(fmt.Sprintf("C16|client|%s|crash|%s", ck, frame),
				fmt.Sprintf("%s client: the process executing call histories died (%s): %s", ck, res.Describe(), vh.CrashLine(stderr)), wit)
		}
		remaining = next
	}
	if len(remaining) > 0 {
		r.Inconclusive(fmt.Sprintf("client %s: %d histories never executed (child kept dying)", ck, len(remaining)))
	}
}

func main() {
	if os.Getenv(vh.ChildEnv) == recChildRole {
		recChildMain()
		return
	}
	kit.MaybeServeStdioChild()
	kit.Silence()
	if vh.ChildRole() == histChildRole {
		histChildMain()
		return
	}
	r := vh.NewRun("C16", "exploration")

	stats := map[string]*judgeStats{}
	var wg sync.WaitGroup
	for _, ck := range clientKinds {
		st := &judgeStats{}
		stats[ck] = st
		n := r.Pick(300, 5000)
		if ck == ckStdio {
			n = r.Pick(80, 400)
		}
		wg.Add(1)
		go func(ck string, n int, st *judgeStats) {
			defer wg.Done()
			t0 := time.Now()
			clientPart(r, ck, n, st)
			r.Max("wall_ms_client_"+ck, time.Since(t0).Milliseconds())
		}(ck, n, st)
	}
	t0 := time.Now()
	serverPart(r)
	r.Max("wall_ms_server_part", time.Since(t0).Milliseconds())
	wg.Wait()

	kinds := make([]string, 0, len(stats))
	for k := range stats {
		kinds = append(kinds, k)
	}
	sort.Strings(kinds)
	for _, ck := range kinds {
		st := stats[ck]
		p := "client_" + ck + "_"
		r.Count(p+"histories", int64(st.histories))
		r.Count(p+"steps", int64(st.steps))
		r.Count(p+"initialize_ok", int64(st.initOK))
		r.Count(p+"initialize_failed", int64(st.initFail))
		r.Count(p+"initialize_ok_after_close", int64(st.reinitAfterClose))
		r.Count(p+"second_initialize_refused", int64(st.secondInitRefused))
		r.Count(p+"ops_refused_without_network", int64(st.opsRefused))
		r.Count(p+"ops_ok_after_handshake", int64(st.opsOK))
		r.Count(p+"ops_failed_after_handshake", int64(st.opsFailedAfter))
		r.Count(p+"healthy_initialize_failed_on_undamaged_client", int64(st.unexpectedInitFail))
		r.Count(p+"roots_notification_sent_while_uninitialized", int64(st.d23))
		r.Count(p+"server_deaths_injected", int64(st.srvDied))
		r.Count(p+"server_deaths_while_initialized", int64(st.srvDiedInitialized))
		r.Count(p+"close_after_server_death", int64(st.closeAfterDeath))
		r.Count(p+"ops_after_server_death_not_judged", int64(st.opsAfterDeath))
		r.Count(p+"fault_handshakes_failed", int64(st.faultInitFail))
		r.Count(p+"fault_handshakes_failed_after_the_initialize_answer", int64(st.faultInitFailLate))
		r.Count(p+"fault_handshakes_reported_ok", int64(st.faultInitOK))
		r.Count(p+"fault_not_reached", int64(st.faultNotReached))
		r.Count(p+"ops_refused_after_fault", int64(st.opsRefusedAfterFault))
		r.Count(p+"getstate_after_fault", int64(st.stateAfterFault))
		r.Count(p+"initialize_ok_after_fault", int64(st.reinitOKAfterFault))
		r.Count(p+"initialize_failed_after_fault", int64(st.reinitFailAfterFault))
		r.Count(p+"ops_ok_after_initialize_after_fault", int64(st.opsOKAfterReinit))
		cells := make([]string, 0, len(st.cells))
		for c := range st.cells {
			cells = append(cells, c)
			r.SetAdd("fault_cells_"+ck, c)
		}
		sort.Strings(cells)
		r.Sample(map[string]interface{}{"part": "client-fault-cells", "client": ck, "cells_observed_with_fault_applied": cells})
		for _, fc := range faultCells(ck) {
			r.Require(st.cells[fmt.Sprintf("at=%s|%s|ok", fc.At, fc.Fault)] || st.cells[fmt.Sprintf("at=%s|%s|failed", fc.At, fc.Fault)],
				"client %s: the fault %s at step %s was never applied to a handshake", ck, fc.Fault, fc.At)
		}
		r.Require(st.faultInitFailLate > 0, "client %s: no handshake failed at a step after the initialize answer", ck)
		r.Require(st.opsRefusedAfterFault > 0, "client %s: no refused operation after a handshake that failed at an injected fault", ck)
		r.Require(st.reinitOKAfterFault+st.reinitFailAfterFault > 0, "client %s: no Initialize after a handshake that failed at an injected fault", ck)
		r.Require(st.closeAfterDeath > 0, "client %s: no Close after the death of the server of an initialized client observed", ck)
		r.Require(st.histories > 0 && st.initOK > 0, "client %s: no successful handshake observed (%d histories)", ck, st.histories)
		r.Require(st.opsRefused > 0, "client %s: no refused operation observed", ck)
		r.Require(st.secondInitRefused > 0, "client %s: no refused second handshake observed", ck)
		r.Require(st.opsOK > 0, "client %s: no operation succeeded after a handshake", ck)
		r.Require(st.initFail > 0, "client %s: no failed handshake observed", ck)
	}
	r.Require(r.Counter("server_exchanges") > 0, "no raw initialize exchange judged")

	r.Finish("Part A: 7 server configurations x 8 registration combinations {tool,prompt,resource} x version classes "+
		"{both supported, older/newer dates, 2025-06-18, empty, 10 KiB, non-ASCII, space/newline/NUL variants, prefixes, seeded random ascii/unicode/date-like/one-character mutations, "+
		"non-string types, absent, non-object params}, each on a fresh raw session with a seeded random (Unicode) server name/version; registration between two sessions in both orders; "+
		"registration HISTORIES on one server with many handshakes: 16 hand-written corner histories (a tool replaced by a first prompt / resource / multi-content resource / template, several or all tools replaced at once, "+
		"tool swapped for tool, names registered again, unknown / duplicate / no names unregistered, removed and registered again, back to an earlier item count, zero tools from the start, handshakes with nothing in between), "+
		"each once per handshake flavour {fresh raw session closed again, raw sessions kept open side by side, initialize again on the open session, the library's own client}, plus seeded random histories over "+
		"{RegisterTool, UnregisterTools (one, two, all, unknown, mixed, none), RegisterPrompt, RegisterResource, RegisterResources, RegisterResourceTemplate, count-preserving replacement, the four handshake flavours}; "+
		"every successful initialize answer is compared in both directions with the reference registry (four name sets) as of that step; "+
		"on the Streamable configurations 8 parallel raw peers handshaking while a prompt and a resource are registered (every second round each of them replaces a tool that is unregistered just before). "+
		"Part B: hand-written corner histories plus seeded random histories (<= 10 steps) over {Initialize x server behaviour {healthy, healthy without session id, JSON-RPC error, not-JSON answer, odd result, down}, "+
		"7 operations, GetState, Close} on Streamable, legacy SSE and stdio clients against library-free recording servers (stdio: recording child process), judged step by step against the two-state reference machine. "+
		"Distinct = (part, configuration or client kind, version class / registration state / (what happened to the registry since the last handshake, handshake flavour, expected capability set, zero tools or not) / (step, model state, phase, behaviour)) whose oracle was actually evaluated.",
		[]string{
			"the supported set is {2024-11-05, 2025-03-26} (library constants); the latest is 2025-03-26",
			"for non-string protocolVersion / non-object params any error answer is conforming; only a success with an unsupported version is refuted",
			"'touching the network' = an HTTP request received by the scripted server (also while it is down), a process spawned (seen in /proc), or a line received on the child's stdin; a TCP connection that never carries a request (net/http dials spare connections in the background) is not traffic of any step",
			"'server down' cuts the open connections and resets every connection as soon as its request has been read and recorded, without answering (a closed port cannot be re-bound safely on a shared machine, and a refused connection could not be attributed to a request); stdio: the child exits at start or at the initialize request",
			"an Initialize answered with text that is not JSON can only end by cancellation on the legacy SSE and stdio clients; the recorder cancels it after 250 ms (the expected outcome, an error, does not depend on that bound)",
			"the Streamable client's background listening-stream GET after a successful handshake is attributed to that handshake (the recorder waits until the server has seen it; should it arrive later it is still not charged to the later step); three quarters of the Streamable histories disable it",
			"a fault at the initialize step or earlier precludes a successful Initialize (success is refuted); with a fault at a later step (initialized notification, listening stream) either outcome of Initialize is accepted and the reference machine follows the reported outcome; after a failed one every operation must be refused as not initialized with nothing on the wire, GetState must say disconnected, and a further Initialize may succeed or fail but must not be refused as 'already initialized'",
			"a fault counts as exercised only when the scripted peer / the request hook actually applied it (fired > 0); every (client kind, step, fault kind) cell must have been applied at least once or the run fails",
			"client-side faults (hook error, cancellation between two steps) are injected through WithHTTPBeforeRequest, installed only on the histories that contain such a fault; the stdio client's notification write takes no context, so cancellation between steps has no stdio cell",
			"stdio 'answer-then-exit': whether the initialized line is still written is a race, both outcomes are accepted; when Initialize reports success the situation is judged like a server death after the handshake",
			"operations after a successful handshake are not required to succeed (counted only); refusing them as not-initialized is refuted",
			"interleavings of the concurrent-registration scenario are sampled, not enumerated",
			"'registered at that time' = the name sets after replaying RegisterTool/UnregisterTools/RegisterPrompt/RegisterResource(s)/RegisterResourceTemplate in program order (all calls return before the handshake is sent); prompts and resources cannot be removed through the public API, tools can",
			"a server on which only resource templates (no resource) are registered may or may not advertise the resources capability (the statement says 'resource'); both are accepted and counted",
			"a further initialize on a session that is already open may be refused with an error (counted); when it is answered with a result, that result is judged like any other",
			"the return value of UnregisterTools (error for unknown / no names) is counted, not judged",
		})
}
