package main

import (
	"context"
	"encoding/json"
	"fmt"
	"math/rand"
	"strings"
	"sync"
	"sync/atomic"
	"time"

	mcp "trpc.group/trpc-go/trpc-mcp-go"

	"verifharness/lib/kit"
	"verifharness/lib/vh"
)

// The statement's "supports": the two protocol revisions the library names; the latest is the newer date.
var (
	supported = []string{mcp.ProtocolVersion_2024_11_05, mcp.ProtocolVersion_2025_03_26}
	latest    = mcp.ProtocolVersion_2025_03_26
)

func isSupported(v string) bool {
	for _, s := range supported {
		if s == v {
			return true
		}
	}
	return false
}

// verCase is one initialize request shape.
type verCase struct {
	Class  string
	RawVer string // raw JSON of params.protocolVersion; "" = key absent
	Str    string // the string value when IsStr
	IsStr  bool
	Params string // when set, the raw JSON used for params as a whole ("-" = no params key)
}

func strCase(class, v string) verCase {
	b, _ := json.Marshal(v)
	return verCase{Class: class, RawVer: string(b), Str: v, IsStr: true}
}

func randString(rng *rand.Rand, alphabet []rune, n int) string {
	out := make([]rune, n)
	for i := range out {
		out[i] = alphabet[rng.Intn(len(alphabet))]
	}
	return string(out)
}

var (
	asciiAlpha   = []rune("abcdefghijklmnopqrstuvwxyzABCDEFGHIJKLMNOPQRSTUVWXYZ0123456789-_. /:\"\\'{}[]<>&%+")
	unicodeAlpha = []rune("абвгдежзийклмнопрстуфхцчшщыэюяΑΒΓΔλμπ日本語中文한국어العربيةעברית😀🚀✓€— ​ é̃ı")
	digitAlpha   = []rune("0123456789-")
)

func versionCases(rng *rand.Rand, nRandom int) []verCase {
	cs := []verCase{
		strCase("supported-2025-03-26", "2025-03-26"),
		strCase("supported-2024-11-05", "2024-11-05"),
		strCase("older-date", "2023-01-01"),
		strCase("newer-date", "2026-01-01"),
		strCase("newer-spec-2025-06-18", "2025-06-18"),
		strCase("empty", ""),
		strCase("10KiB", strings.Repeat("v", 10<<10)),
		strCase("non-ascii", "версия-2025-03-26-✓-日本"),
		strCase("leading-space", " 2025-03-26"),
		strCase("trailing-space", "2025-03-26 "),
		strCase("both-space", " 2024-11-05 "),
		strCase("trailing-newline", "2024-11-05\n"),
		strCase("trailing-nul", "2025-03-26\x00"),
		strCase("prefix-of-supported", "2025-03-2"),
		strCase("supported-plus-suffix", "2025-03-26-draft"),
		strCase("uppercase-garbage", "LATEST"),
		{Class: "type-number", RawVer: `20250326`},
		{Class: "type-float", RawVer: `2025.0326`},
		{Class: "type-null", RawVer: `null`},
		{Class: "type-bool", RawVer: `true`},
		{Class: "type-object", RawVer: `{"v":"2025-03-26"}`},
		{Class: "type-array", RawVer: `["2025-03-26"]`},
		{Class: "missing", RawVer: ""},
		{Class: "params-null", Params: `null`},
		{Class: "params-array", Params: `["2025-03-26"]`},
		{Class: "params-string", Params: `"2025-03-26"`},
		{Class: "params-number", Params: `7`},
		{Class: "params-absent", Params: `-`},
	}
	for i := 0; i < nRandom; i++ {
		switch i % 4 {
		case 0:
			cs = append(cs, strCase("random-ascii", randString(rng, asciiAlpha, 1+rng.Intn(40))))
		case 1:
			cs = append(cs, strCase("random-unicode", randString(rng, unicodeAlpha, 1+rng.Intn(24))))
		case 2:
			cs = append(cs, strCase("random-date-like", randString(rng, digitAlpha, 10)))
		default:
			// one-character mutation of a supported version
			b := []rune(supported[rng.Intn(len(supported))])
			p := rng.Intn(len(b))
			orig := b[p]
			for b[p] == orig {
				b[p] = digitAlpha[rng.Intn(len(digitAlpha))]
			}
			cs = append(cs, strCase("random-near-supported", string(b)))
		}
	}
	return cs
}

func initBodyFor(rawID string, vc verCase) []byte {
	switch {
	case vc.Params == "-":
		return []byte(`{"jsonrpc":"2.0","id":` + rawID + `,"method":"initialize"}`)
	case vc.Params != "":
		return []byte(`{"jsonrpc":"2.0","id":` + rawID + `,"method":"initialize","params":` + vc.Params + `}`)
	}
	pv := ""
	if vc.RawVer != "" {
		pv = `"protocolVersion":` + vc.RawVer + `,`
	}
	return []byte(`{"jsonrpc":"2.0","id":` + rawID + `,"method":"initialize","params":{` + pv + `"clientInfo":{"name":"rawpeer","version":"1"},"capabilities":{}}}`)
}

// initAnswer is the parsed answer to an initialize request.
type initAnswer struct {
	Got      bool
	IsError  bool
	ErrCode  int
	Version  string
	Name     string
	SrvVer   string
	Caps     map[string]bool // capability keys present with a non-null value
	HasCaps  bool
	RawFrame string
	Status   int
	TimedOut bool
}

func parseInitAnswer(ex *kit.Exchange, wantID string) initAnswer {
	a := initAnswer{Caps: map[string]bool{}}
	if ex.HTTP != nil {
		a.Status = ex.HTTP.Status
	}
	a.TimedOut = ex.TimedOut
	for _, f := range ex.Frames {
		id, has, hasMethod := kit.FrameID(f)
		if !has || hasMethod || id != wantID {
			continue
		}
		var m struct {
			Result *struct {
				ProtocolVersion *string `json:"protocolVersion"`
				ServerInfo      struct {
					Name    string `json:"name"`
					Version string `json:"version"`
				} `json:"serverInfo"`
				Capabilities map[string]json.RawMessage `json:"capabilities"`
			} `json:"result"`
			Error *struct {
				Code int `json:"code"`
			} `json:"error"`
		}
		if json.Unmarshal([]byte(f), &m) != nil {
			continue
		}
		a.Got = true
		a.RawFrame = f
		if len(a.RawFrame) > 600 {
			a.RawFrame = a.RawFrame[:600] + "..."
		}
		if m.Error != nil {
			a.IsError, a.ErrCode = true, m.Error.Code
			return a
		}
		if m.Result != nil {
			if m.Result.ProtocolVersion != nil {
				a.Version = *m.Result.ProtocolVersion
			}
			a.Name, a.SrvVer = m.Result.ServerInfo.Name, m.Result.ServerInfo.Version
			a.HasCaps = m.Result.Capabilities != nil
			for k, v := range m.Result.Capabilities {
				if string(v) != "null" {
					a.Caps[k] = true
				}
			}
		}
		return a
	}
	return a
}

var rawSeq atomic.Int64

// handshakeOnce opens a fresh raw session and sends one initialize.
func handshakeOnce(ctx context.Context, r *vh.Run, in *kit.Instance, vc verCase) (initAnswer, bool) {
	c, err := in.Dial(ctx)
	if err != nil {
		r.Inconclusive(fmt.Sprintf("server %s: raw dial failed: %v", in.Kind, err))
		return initAnswer{}, false
	}
	defer c.Close()
	rawID := fmt.Sprintf(`"v-%d"`, rawSeq.Add(1))
	ex := c.Post(ctx, initBodyFor(rawID, vc), kit.PostOpts{WantID: kit.CanonID(json.RawMessage(rawID)), NoSessionID: true, Wait: 15 * time.Second})
	return parseInitAnswer(ex, kit.CanonID(json.RawMessage(rawID))), true
}

type capCombo struct{ Tool, Prompt, Resource bool }

func (c capCombo) String() string {
	b := func(x bool) string {
		if x {
			return "1"
		}
		return "0"
	}
	return "tools" + b(c.Tool) + "-prompts" + b(c.Prompt) + "-resources" + b(c.Resource)
}

func registerTool(in *kit.Instance, name string) {
	in.RegisterTool(mcp.NewTool(name, mcp.WithDescription("t")), func(ctx context.Context, req *mcp.CallToolRequest) (*mcp.CallToolResult, error) {
		return mcp.NewTextResult("ok"), nil
	})
}

func registerPrompt(in *kit.Instance, name string) {
	in.RegisterPrompt(&mcp.Prompt{Name: name}, func(ctx context.Context, req *mcp.GetPromptRequest) (*mcp.GetPromptResult, error) {
		return &mcp.GetPromptResult{}, nil
	})
}

func registerResource(in *kit.Instance, uri string) {
	in.RegisterResource(&mcp.Resource{URI: uri, Name: "r"}, func(ctx context.Context, req *mcp.ReadResourceRequest) (mcp.ResourceContents, error) {
		return mcp.TextResourceContents{URI: uri, Text: "x"}, nil
	})
}

// judgeCaps checks the capability part of an answer against the registration state.
func judgeCaps(r *vh.Run, kind kit.Kind, comboName string, a initAnswer, wantPrompts, wantResources bool, wit interface{}) bool {
	ok := true
	sig := fmt.Sprintf("C16|server|%s|caps=%s|", kind, comboName)
	if !a.Caps["tools"] {
		r.Violation(sig+"tools-missing", fmt.Sprintf("%s: initialize answer without the tools capability (registration state %s)", kind, comboName), wit)
		ok = false
	}
	if a.Caps["prompts"] != wantPrompts {
		sym := "prompts-missing"
		if a.Caps["prompts"] {
			sym = "prompts-unexpected"
		}
		r.Violation(sig+sym, fmt.Sprintf("%s: prompts capability present=%v, a prompt is registered=%v (state %s)", kind, a.Caps["prompts"], wantPrompts, comboName), wit)
		ok = false
	}
	if a.Caps["resources"] != wantResources {
		sym := "resources-missing"
		if a.Caps["resources"] {
			sym = "resources-unexpected"
		}
		r.Violation(sig+sym, fmt.Sprintf("%s: resources capability present=%v, a resource is registered=%v (state %s)", kind, a.Caps["resources"], wantResources, comboName), wit)
		ok = false
	}
	return ok
}

func randName(rng *rand.Rand, i int) string {
	switch i % 3 {
	case 0:
		return "srv-" + randString(rng, asciiAlpha, 3+rng.Intn(20))
	case 1:
		return "сервер-" + randString(rng, unicodeAlpha, 2+rng.Intn(16))
	default:
		return randString(rng, append(append([]rune{}, asciiAlpha...), unicodeAlpha...), 1+rng.Intn(30)) + "!"
	}
}

// versionAndCapsMatrix: per configuration and registration combination, one fresh session per version case.
func versionAndCapsMatrix(r *vh.Run, kind kit.Kind, nRandom int) {
	ctx, cancel := context.WithTimeout(context.Background(), 10*time.Minute)
	defer cancel()
	ci := 0
	for _, tool := range []bool{false, true} {
		for _, prompt := range []bool{false, true} {
			for _, resource := range []bool{false, true} {
				combo := capCombo{tool, prompt, resource}
				rng := r.Rand(fmt.Sprintf("srv-%s-%s", kind, combo))
				name, ver := randName(rng, ci), randString(rng, append(append([]rune{}, digitAlpha...), unicodeAlpha...), 1+rng.Intn(12))+".1"
				ci++
				in := kit.Start(kind, kit.Opts{Name: name, Version: ver})
				if tool {
					registerTool(in, "t1")
				}
				if prompt {
					registerPrompt(in, "p1")
					if rng.Intn(2) == 0 {
						registerPrompt(in, "p2")
					}
				}
				if resource {
					registerResource(in, "res://one")
				}
				for _, vc := range versionCases(rng, nRandom) {
					a, dialed := handshakeOnce(ctx, r, in, vc)
					if !dialed {
						continue
					}
					r.Eval(1)
					r.Count("server_exchanges", 1)
					wit := map[string]interface{}{"kind": kind, "registered": combo.String(), "version_class": vc.Class, "requested": clip(vc.RawVer+vc.Params, 120), "configured_name": name, "configured_version": ver, "answer": a}
					sig := fmt.Sprintf("C16|server|%s|version=%s|", kind, vc.Class)
					if !vc.IsStr {
						// conforming: an error answer (or no result at all). Refuted only by a success carrying an unsupported version.
						switch {
						case !a.Got:
							r.Count("nonstring_no_jsonrpc_answer", 1)
						case a.IsError:
							r.Count("nonstring_error_answer", 1)
							r.SetAdd("nonstring_error_codes", fmt.Sprint(a.ErrCode))
						case !isSupported(a.Version):
							r.Violation(sig+"unsupported-version-answered", fmt.Sprintf("%s: initialize with a non-string protocolVersion (%s) answered with success and version %q", kind, vc.Class, clip(a.Version, 60)), wit)
							continue
						default:
							r.Count("nonstring_success_supported", 1)
						}
						r.Distinct(fmt.Sprintf("server|%s|version=%s", kind, vc.Class))
						continue
					}
					if !a.Got {
						if a.TimedOut {
							r.Inconclusive(fmt.Sprintf("server %s: no answer to initialize (version class %s) within the watchdog", kind, vc.Class))
						} else {
							r.Violation(sig+"no-answer", fmt.Sprintf("%s: initialize (version class %s) got no JSON-RPC answer (status %d)", kind, vc.Class, a.Status), wit)
						}
						continue
					}
					if a.IsError {
						r.Violation(sig+"error-answer", fmt.Sprintf("%s: well-formed initialize (version class %s) answered with error %d", kind, vc.Class, a.ErrCode), wit)
						continue
					}
					want := latest
					if isSupported(vc.Str) {
						want = vc.Str
					}
					good := true
					switch {
					case !isSupported(a.Version):
						r.Violation(sig+"unsupported-version-answered", fmt.Sprintf("%s: answered with protocolVersion %q which the server does not support", kind, clip(a.Version, 60)), wit)
						good = false
					case a.Version != want:
						r.Violation(sig+"wrong-version", fmt.Sprintf("%s: requested %s, answered %q, expected %q", kind, vc.Class, a.Version, want), wit)
						good = false
					}
					if a.Name != name {
						r.Violation(fmt.Sprintf("C16|server|%s|serverinfo|name-differs", kind), fmt.Sprintf("%s: serverInfo.name %q, configured %q", kind, a.Name, name), wit)
						good = false
					}
					if a.SrvVer != ver {
						r.Violation(fmt.Sprintf("C16|server|%s|serverinfo|version-differs", kind), fmt.Sprintf("%s: serverInfo.version %q, configured %q", kind, a.SrvVer, ver), wit)
						good = false
					}
					if !judgeCaps(r, kind, combo.String(), a, prompt, resource, wit) {
						good = false
					}
					if good {
						r.Distinct(fmt.Sprintf("server|%s|version=%s", kind, vc.Class))
						r.Distinct(fmt.Sprintf("server|%s|caps=%s", kind, combo))
						if vc.Class == "non-ascii" && combo.Prompt && !combo.Resource && !combo.Tool && (kind == kit.SSSE || kind == kit.Stdio) {
							r.Sample(map[string]interface{}{"part": "server", "kind": kind, "registered": combo.String(), "requested_version": vc.Str, "answer": a.RawFrame})
						}
					}
				}
				in.Close()
			}
		}
	}
}

func clip(s string, n int) string {
	if len(s) > n {
		return s[:n] + fmt.Sprintf("...(%d bytes)", len(s))
	}
	return s
}

// registrationBetweenSessions: the capability set follows registrations made between two handshakes.
func registrationBetweenSessions(r *vh.Run, kind kit.Kind) {
	ctx, cancel := context.WithTimeout(context.Background(), 2*time.Minute)
	defer cancel()
	for _, order := range []string{"prompt-first", "resource-first"} {
		for _, withTool := range []bool{false, true} {
			in := kit.Start(kind, kit.Opts{})
			if withTool {
				registerTool(in, "t1")
			}
			p, rs := false, false
			stage := func(name string) {
				a, dialed := handshakeOnce(ctx, r, in, strCase("supported-2025-03-26", "2025-03-26"))
				if !dialed {
					return
				}
				r.Eval(1)
				wit := map[string]interface{}{"kind": kind, "order": order, "stage": name, "answer": a}
				if !a.Got || a.IsError {
					r.Violation(fmt.Sprintf("C16|server|%s|caps=sequential-%s|no-result", kind, name), fmt.Sprintf("%s: handshake at stage %s failed", kind, name), wit)
					return
				}
				if judgeCaps(r, kind, "sequential-"+name, a, p, rs, wit) {
					r.Distinct(fmt.Sprintf("server|%s|sequential|%s|%s", kind, order, name))
				}
			}
			stage("before-any")
			if order == "prompt-first" {
				registerPrompt(in, "late-p")
				p = true
				stage("after-prompt")
				registerResource(in, "res://late")
				rs = true
				stage("after-prompt-and-resource")
			} else {
				registerResource(in, "res://late")
				rs = true
				stage("after-resource")
				registerPrompt(in, "late-p")
				p = true
				stage("after-resource-and-prompt")
			}
			in.Close()
		}
	}
}

// concurrentRegistration: sessions handshake in parallel while a prompt and then a resource are registered.
// Each answer must equal a registration state that existed between the sending of its request and the
// arrival of its answer: at least `done` registrations had completed before the request was sent, at most
// `started` had begun when the answer arrived.
//
// Every second round the server starts with two tools and each registration comes with the removal of one of
// them (the tool leaves first, the prompt / resource arrives afterwards), so that the number of registered
// items is the same before and after; a removal changes nothing about the expected capability set.
func concurrentRegistration(r *vh.Run, kind kit.Kind, rounds, workers, perWorker int) {
	ctx, cancel := context.WithTimeout(context.Background(), 5*time.Minute)
	defer cancel()
	for round := 0; round < rounds; round++ {
		in := kit.Start(kind, kit.Opts{})
		withRemoval := round%2 == 1
		variant := "additions"
		if withRemoval {
			variant = "replacements"
			registerTool(in, "conc-t1")
			registerTool(in, "conc-t2")
		}
		var started, done, answered atomic.Int64
		type rec struct {
			lo, hi int64
			a      initAnswer
		}
		var mu sync.Mutex
		var recs []rec
		var wg sync.WaitGroup
		for w := 0; w < workers; w++ {
			wg.Add(1)
			go func() {
				defer wg.Done()
				for i := 0; i < perWorker; i++ {
					lo := done.Load()
					a, dialed := handshakeOnce(ctx, r, in, strCase("supported-2025-03-26", "2025-03-26"))
					hi := started.Load()
					answered.Add(1)
					if !dialed {
						continue
					}
					mu.Lock()
					recs = append(recs, rec{lo, hi, a})
					mu.Unlock()
				}
			}()
		}
		total := int64(workers * perWorker)
		waitFor := func(n int64) {
			dl := time.Now().Add(30 * time.Second)
			for answered.Load() < n && time.Now().Before(dl) {
				time.Sleep(100 * time.Microsecond)
			}
		}
		waitFor(total / 4)
		if withRemoval {
			if err := in.UnregisterTools("conc-t1"); err != nil {
				r.Inconclusive(fmt.Sprintf("server %s: concurrent scenario: UnregisterTools(conc-t1): %v", kind, err))
			}
		}
		started.Add(1)
		registerPrompt(in, "conc-p")
		done.Add(1)
		waitFor(total / 2)
		if withRemoval {
			if err := in.UnregisterTools("conc-t2", "conc-unknown"); err != nil {
				r.Inconclusive(fmt.Sprintf("server %s: concurrent scenario: UnregisterTools(conc-t2): %v", kind, err))
			}
		}
		started.Add(1)
		registerResource(in, "res://conc")
		done.Add(1)
		wg.Wait()
		in.Close()
		stateCaps := func(k int64) (bool, bool) { return k >= 1, k >= 2 }
		seen := map[string]bool{}
		for _, x := range recs {
			r.Eval(1)
			r.Count("concurrent_handshakes", 1)
			r.Count("concurrent_handshakes_"+variant, 1)
			if x.lo < x.hi {
				r.Count("concurrent_handshakes_overlapping_a_registration", 1)
			}
			wit := map[string]interface{}{"kind": kind, "variant": variant, "registrations_completed_before_send": x.lo, "registrations_started_at_answer": x.hi, "answer": x.a}
			if !x.a.Got || x.a.IsError {
				r.Violation(fmt.Sprintf("C16|server|%s|caps=concurrent-registration|no-result", kind), fmt.Sprintf("%s: handshake during registration failed", kind), wit)
				continue
			}
			okAny := false
			for k := x.lo; k <= x.hi; k++ {
				p, rs := stateCaps(k)
				if x.a.Caps["prompts"] == p && x.a.Caps["resources"] == rs && x.a.Caps["tools"] {
					okAny = true
				}
			}
			if !okAny {
				r.Violation(fmt.Sprintf("C16|server|%s|caps=concurrent-registration|state-never-existed", kind),
					fmt.Sprintf("%s: capabilities prompts=%v resources=%v tools=%v match no registration state between %d and %d completed registrations", kind, x.a.Caps["prompts"], x.a.Caps["resources"], x.a.Caps["tools"], x.lo, x.hi), wit)
				continue
			}
			seen[fmt.Sprintf("p%v-r%v", x.a.Caps["prompts"], x.a.Caps["resources"])] = true
		}
		for k := range seen {
			r.Distinct(fmt.Sprintf("server|%s|concurrent-%s|%s", kind, variant, k))
		}
	}
}

// serverPart runs part A over all seven configurations (configurations in parallel, each sequential inside).
func serverPart(r *vh.Run) {
	nRandom := r.Pick(8, 64)
	var wg sync.WaitGroup
	for _, kind := range kit.AllKinds {
		wg.Add(1)
		go func(kind kit.Kind) {
			defer wg.Done()
			t0 := time.Now()
			defer func() { r.Max("wall_ms_server_"+string(kind), time.Since(t0).Milliseconds()) }()
			versionAndCapsMatrix(r, kind, nRandom)
			registrationBetweenSessions(r, kind)
			registrationHistories(r, kind, r.Pick(120, 400))
			if kind.IsStreamable() {
				concurrentRegistration(r, kind, r.Pick(4, 20), 8, 20)
			}
		}(kind)
	}
	wg.Wait()
}
