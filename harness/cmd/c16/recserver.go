package main

import (
	"encoding/json"
	"fmt"
	"io"
	"net"
	"net/http"
	"strings"
	"sync"
	"time"
)

// recServer is a scripted MCP server (Streamable or legacy SSE) written without the library. It records
// every HTTP request it receives (also while "down": the request is read, recorded and the connection reset
// without an answer), and its answer to initialize can be switched between the behaviours of hist.go.
// TCP connections that never carry a request (net/http's transport dials spare connections in the
// background) are counted separately and are not traffic of any step.
type recServer struct {
	legacy     bool
	alwaysSess bool // Streamable: every initialize answer carries Mcp-Session-Id (keeps the client's GET attempt enabled)
	srv        *http.Server
	base       string // http://127.0.0.1:port
	conns      map[net.Conn]bool // connection -> has carried at least one request
	bare       int               // connections closed without ever carrying a request

	mu       sync.Mutex
	mode     string
	variant  int
	wire     []string
	gets     int
	nextSess int
	sessions map[string]*legacySess
	fault    *faultPlan // armed while an Initialize step of mode "fault" runs (faults.go)
}

type legacySess struct {
	ch   chan string
	kill chan struct{}
}

func newRecServer(legacy, alwaysSess bool) *recServer {
	s := &recServer{legacy: legacy, alwaysSess: alwaysSess, mode: mHealthy, sessions: map[string]*legacySess{}, conns: map[net.Conn]bool{}}
	// On a shared machine every loopback port may momentarily sit in TIME_WAIT; that passes by itself, so the
	// harness waits for a port (a resource wait, no decision depends on it) before it gives up.
	var ln net.Listener
	var err error
	for attempt := 0; attempt < 80; attempt++ {
		ln, err = net.Listen("tcp", "127.0.0.1:0")
		if err == nil || !strings.Contains(err.Error(), "address already in use") {
			break
		}
		time.Sleep(250 * time.Millisecond)
	}
	if err != nil {
		panic("recServer: " + err.Error())
	}
	s.base = "http://" + ln.Addr().String()
	// plain net/http server: httptest.Server.Close would also close the idle connections of
	// http.DefaultTransport, which every library client of this process shares
	s.srv = &http.Server{Handler: http.HandlerFunc(s.serve), ConnState: func(c net.Conn, st http.ConnState) {
		s.mu.Lock()
		switch st {
		case http.StateNew:
			s.conns[c] = false
		case http.StateActive:
			s.conns[c] = true
		case http.StateClosed, http.StateHijacked:
			if used, ok := s.conns[c]; ok && !used {
				s.bare++
			}
			delete(s.conns, c)
		}
		s.mu.Unlock()
	}}
	go func() { _ = s.srv.Serve(ln) }()
	return s
}

// cutConnections closes every connection the server currently holds.
func (s *recServer) cutConnections() {
	s.mu.Lock()
	cs := make([]net.Conn, 0, len(s.conns))
	for c := range s.conns {
		cs = append(cs, c)
	}
	s.mu.Unlock()
	for _, c := range cs {
		_ = c.Close()
	}
}

func (s *recServer) url() string {
	if s.legacy {
		return s.base + "/sse"
	}
	return s.base + "/mcp"
}

func (s *recServer) bareCount() int {
	s.mu.Lock()
	defer s.mu.Unlock()
	return s.bare
}

func (s *recServer) touchCount() int {
	s.mu.Lock()
	defer s.mu.Unlock()
	return len(s.wire)
}

func (s *recServer) wireSince(n int) []string {
	s.mu.Lock()
	defer s.mu.Unlock()
	if n > len(s.wire) {
		n = len(s.wire)
	}
	return append([]string{}, s.wire[n:]...)
}

func (s *recServer) getCount() int {
	s.mu.Lock()
	defer s.mu.Unlock()
	return s.gets
}

// setMode switches the behaviour. Going down cuts every open connection (idle keep-alive connections and
// legacy event streams) the way a dying server does; coming back up drops whatever connected meanwhile.
func (s *recServer) setMode(mode string, variant int) {
	s.mu.Lock()
	wasDown := s.mode == mDown
	s.mode, s.variant = mode, variant
	var kills []*legacySess
	if mode == mDown {
		for id, ls := range s.sessions {
			kills = append(kills, ls)
			delete(s.sessions, id)
		}
	}
	s.mu.Unlock()
	if mode == mDown {
		for _, ls := range kills {
			close(ls.kill)
		}
		s.cutConnections()
	} else if wasDown {
		s.cutConnections()
	}
}

func (s *recServer) close() {
	s.mu.Lock()
	for id, ls := range s.sessions {
		close(ls.kill)
		delete(s.sessions, id)
	}
	s.mu.Unlock()
	_ = s.srv.Close() // closes the listener and every connection; does not wait for handlers
	s.cutConnections()
}

type rpcHead struct {
	ID     json.RawMessage `json:"id"`
	Method string          `json:"method"`
}

// plainResult is the minimal valid result of every non-initialize request.
func plainResult(method string) string {
	switch method {
	case "tools/list":
		return `{"tools":[{"name":"echo","description":"d","inputSchema":{"type":"object"}}]}`
	case "tools/call":
		return `{"content":[{"type":"text","text":"ok"}]}`
	case "prompts/list":
		return `{"prompts":[{"name":"p-ok"}]}`
	case "prompts/get":
		return `{"description":"d","messages":[{"role":"user","content":{"type":"text","text":"hello"}}]}`
	case "resources/list":
		return `{"resources":[{"uri":"res://ok","name":"ok"}]}`
	case "resources/read":
		return `{"contents":[{"uri":"res://ok","mimeType":"text/plain","text":"resource text"}]}`
	default:
		return `{}`
	}
}

const healthyInitResult = `{"protocolVersion":"2025-03-26","capabilities":{"tools":{"listChanged":true}},"serverInfo":{"name":"rec-server","version":"1.0"}}`

// scriptedAnswer renders the answer to a request under the given behaviour. ok=false means "not JSON".
func scriptedAnswer(mode string, variant int, h rpcHead) string {
	id := string(h.ID)
	if h.Method != "initialize" {
		return `{"jsonrpc":"2.0","id":` + id + `,"result":` + plainResult(h.Method) + `}`
	}
	switch mode {
	case mError:
		codes := []string{"-32603", "-32602", "-32000", "-32600"}
		return `{"jsonrpc":"2.0","id":` + id + `,"error":{"code":` + codes[variant%len(codes)] + `,"message":"scripted handshake failure"}}`
	case mMalA:
		switch variant % 2 {
		case 0:
			return `{"jsonrpc":"2.0","id":` + id + `,"result":{"protocolVersion":"2025-03-26","capabilities":{`
		default:
			return `<html><body>this is not json</body></html>`
		}
	case mMalB:
		odd := []string{`"result":"garbage"`, `"result":[1,2,3]`, `"result":42`, `"outcome":{}`}
		return `{"jsonrpc":"2.0","id":` + id + `,` + odd[variant%len(odd)] + `}`
	default:
		return `{"jsonrpc":"2.0","id":` + id + `,"result":` + healthyInitResult + `}`
	}
}

func (s *recServer) serve(w http.ResponseWriter, r *http.Request) {
	if s.faultBeforeRead(w, r) {
		return
	}
	body, _ := io.ReadAll(r.Body)
	var h rpcHead
	_ = json.Unmarshal(body, &h)
	what := r.Method + " " + r.URL.Path
	if h.Method != "" {
		what += " " + h.Method
	}
	s.mu.Lock()
	s.wire = append(s.wire, what)
	wi := len(s.wire) - 1
	if r.Method == http.MethodGet && !s.legacy {
		s.gets++
	}
	mode, variant := s.mode, s.variant
	if mode == mDown {
		s.wire[len(s.wire)-1] = what + " [server down: reset without answer]"
	}
	s.mu.Unlock()
	if mode == mDown {
		// the request is on record; the client gets a connection reset instead of an answer
		if hj, ok := w.(http.Hijacker); ok {
			if c, _, err := hj.Hijack(); err == nil {
				if tc, ok := c.(*net.TCPConn); ok {
					_ = tc.SetLinger(0)
				}
				_ = c.Close()
				return
			}
		}
		panic(http.ErrAbortHandler)
	}
	if s.faultAfterRead(w, r, h, variant, wi) {
		return
	}
	if s.legacy {
		s.serveLegacy(w, r, h, mode, variant)
		return
	}
	switch r.Method {
	case http.MethodGet:
		w.WriteHeader(http.StatusMethodNotAllowed)
	case http.MethodDelete:
		w.WriteHeader(http.StatusOK)
	case http.MethodPost:
		if len(h.ID) == 0 || string(h.ID) == "null" {
			w.WriteHeader(http.StatusAccepted)
			return
		}
		ans := scriptedAnswer(mode, variant, h)
		if h.Method == "initialize" && (s.alwaysSess || mode == mHealthy) {
			s.mu.Lock()
			s.nextSess++
			sid := fmt.Sprintf("rec-session-%d", s.nextSess)
			s.mu.Unlock()
			w.Header().Set("Mcp-Session-Id", sid)
		}
		// variants 2,3 answer initialize as an event stream, 0,1 as a JSON body
		if h.Method == "initialize" && variant >= 2 {
			w.Header().Set("Content-Type", "text/event-stream")
			w.WriteHeader(http.StatusOK)
			fmt.Fprintf(w, "event: message\ndata: %s\n\n", ans)
			return
		}
		w.Header().Set("Content-Type", "application/json")
		w.WriteHeader(http.StatusOK)
		_, _ = io.WriteString(w, ans)
	default:
		w.WriteHeader(http.StatusMethodNotAllowed)
	}
}

func (s *recServer) serveLegacy(w http.ResponseWriter, r *http.Request, h rpcHead, mode string, variant int) {
	switch {
	case r.Method == http.MethodGet && r.URL.Path == "/sse":
		fl, ok := w.(http.Flusher)
		if !ok {
			w.WriteHeader(500)
			return
		}
		ls := &legacySess{ch: make(chan string, 64), kill: make(chan struct{})}
		s.mu.Lock()
		s.nextSess++
		id := fmt.Sprintf("ls%d", s.nextSess)
		s.sessions[id] = ls
		s.mu.Unlock()
		w.Header().Set("Content-Type", "text/event-stream")
		w.Header().Set("Cache-Control", "no-cache")
		w.WriteHeader(http.StatusOK)
		fmt.Fprintf(w, "event: endpoint\ndata: /message?sessionId=%s\n\n", id)
		fl.Flush()
		for {
			select {
			case m := <-ls.ch:
				fmt.Fprintf(w, "event: message\ndata: %s\n\n", m)
				fl.Flush()
			case <-ls.kill:
				return
			case <-r.Context().Done():
				s.mu.Lock()
				delete(s.sessions, id)
				s.mu.Unlock()
				return
			}
		}
	case r.Method == http.MethodPost && r.URL.Path == "/message":
		s.mu.Lock()
		ls := s.sessions[r.URL.Query().Get("sessionId")]
		s.mu.Unlock()
		if ls == nil {
			http.Error(w, "session not found", http.StatusNotFound)
			return
		}
		w.WriteHeader(http.StatusAccepted)
		if len(h.ID) == 0 || string(h.ID) == "null" {
			return
		}
		select {
		case ls.ch <- scriptedAnswer(mode, variant, h):
		default:
		}
	default:
		w.WriteHeader(http.StatusNotFound)
	}
}
