package main

import (
	"bytes"
	"context"
	"encoding/json"
	"errors"
	"fmt"
	"io"
	"net"
	"net/http"
	"strings"
	"sync/atomic"
	"time"
)

// A handshake is a multi-step exchange. An Initialize step of mode "fault" runs against a healthy scripted
// server with exactly one fault injected at step At while the steps before it succeed:
//
//	Streamable : initialize (POST, answered as JSON body or as event stream) -> initialized (POST notification) -> get (listening stream, optional)
//	legacy SSE : stream (GET + endpoint event) -> initialize (POST) -> answer (over the stream) -> initialized (POST notification)
//	stdio      : start (process) -> initialize (line) -> answer (line) -> initialized (line)
const (
	atStart       = "start"
	atStream      = "stream"
	atInitialize  = "initialize"
	atAnswer      = "answer"
	atInitialized = "initialized"
	atGet         = "get"
)

// Fault kinds.
const (
	// injected by the scripted HTTP server
	fDropBeforeRead = "drop-before-read" // connection reset before the request body is read (the step is identified by its position)
	fDropAfterRead  = "drop-after-read"  // request read and recorded, connection reset without an answer
	fStatus500      = "status-500"
	fStatus404      = "status-404"
	fTruncated      = "truncated-body" // half of the JSON answer, then the connection dies
	fSSECut         = "sse-cut"        // the answer stream is opened and ends without any event
	fNotSSE         = "not-sse"        // 200 text/plain where an event stream is expected
	fNoEndpoint     = "no-endpoint"    // legacy: the event stream ends before the endpoint event
	fStreamCut      = "stream-cut"     // legacy: the POST is accepted, the event stream is ended instead of carrying the answer
	fCancelInFlight = "cancel-in-flight" // the server has read the request, the caller's context is cancelled, no answer
	// injected at the client side through the library's documented per-request hook (WithHTTPBeforeRequest)
	fBeforeReqErr = "before-request-error" // the hook of exactly this request returns an error
	fCancelBefore = "cancel-before-send"   // the caller's context is cancelled between the previous step and this request
	// injected by the scripted stdio peer
	fExitAtStart    = "exit-at-start"          // the process exits when it starts (or, if it runs already, at the initialize line)
	fExitAfterRead  = "exit-after-read"        // the peer reads the initialize line and exits
	fCloseStdout    = "close-stdout-no-answer" // the peer reads the initialize line, closes its stdout and stays alive
	fPartialAnswer  = "partial-answer-exit"    // half an answer line without newline, then exit
	fStdinClosed    = "stdin-closed-then-answer" // the peer closes its stdin, then answers: the initialized line cannot be written
	fAnswerThenExit = "answer-then-exit"       // the peer answers and exits at once: the initialized line may or may not be written
)

type faultCell struct{ At, Fault string }

func faultStep(fc faultCell, v int) Step {
	return Step{Kind: "init", Mode: mFault, Var: v, At: fc.At, Fault: fc.Fault}
}

// faultCells enumerates the (step, fault kind) cells of a client kind.
func faultCells(client string) []faultCell {
	var out []faultCell
	add := func(at string, kinds ...string) {
		for _, k := range kinds {
			out = append(out, faultCell{at, k})
		}
	}
	switch client {
	case ckStreamable:
		add(atInitialize, fDropBeforeRead, fDropAfterRead, fStatus500, fStatus404, fTruncated, fSSECut, fCancelInFlight, fBeforeReqErr, fCancelBefore)
		add(atInitialized, fDropBeforeRead, fDropAfterRead, fStatus500, fStatus404, fCancelInFlight, fBeforeReqErr, fCancelBefore)
		add(atGet, fDropAfterRead, fStatus500, fNotSSE, fBeforeReqErr)
	case ckLegacy:
		add(atStream, fDropAfterRead, fStatus500, fNotSSE, fNoEndpoint, fBeforeReqErr)
		add(atInitialize, fDropBeforeRead, fDropAfterRead, fStatus500, fCancelInFlight, fBeforeReqErr, fCancelBefore)
		add(atAnswer, fStreamCut)
		add(atInitialized, fDropBeforeRead, fDropAfterRead, fStatus500, fStatus404, fCancelInFlight, fBeforeReqErr, fCancelBefore)
	case ckStdio:
		add(atStart, fExitAtStart)
		add(atInitialize, fExitAfterRead, fCloseStdout)
		add(atAnswer, fPartialAnswer)
		add(atInitialized, fStdinClosed, fAnswerThenExit)
	}
	return out
}

// faultPrecludesAnswer: with a fault at one of these steps no complete initialize answer can have reached the
// client, so an Initialize that reports success is refuted. Faults at later steps leave the outcome of
// Initialize open (the statement does not say whether an undeliverable notification fails the handshake).
func faultPrecludesAnswer(at string) bool {
	return at == atStart || at == atStream || at == atInitialize || at == atAnswer
}

// faultKillsServer: after this fault the scripted peer is gone (stdio), so a handshake that nevertheless
// reported success leaves a client whose server is dead.
func faultKillsServer(kind string) bool { return kind == fAnswerThenExit }

func clientSideFault(kind string) bool { return kind == fBeforeReqErr || kind == fCancelBefore }

// ---- server side (recServer) ----

type faultPlan struct {
	at, kind string
	cancel   context.CancelFunc // cancels the context of the Initialize call under test
	posts    int                // POSTs received since the plan was armed
	fired    int
}

func (s *recServer) setFault(at, kind string, cancel context.CancelFunc) {
	s.mu.Lock()
	s.fault = &faultPlan{at: at, kind: kind, cancel: cancel}
	s.mu.Unlock()
}

// clearFault disarms the plan and says how often it fired.
func (s *recServer) clearFault() int {
	s.mu.Lock()
	defer s.mu.Unlock()
	n := 0
	if s.fault != nil {
		n = s.fault.fired
	}
	s.fault = nil
	return n
}

func (s *recServer) faultFired() int {
	s.mu.Lock()
	defer s.mu.Unlock()
	if s.fault == nil {
		return 0
	}
	return s.fault.fired
}

func resetConn(w http.ResponseWriter) {
	if hj, ok := w.(http.Hijacker); ok {
		if c, _, err := hj.Hijack(); err == nil {
			if tc, ok := c.(*net.TCPConn); ok {
				_ = tc.SetLinger(0)
			}
			_ = c.Close()
			return
		}
	}
	panic(http.ErrAbortHandler)
}

// faultBeforeRead handles the one fault that must act before the body is read. The step is identified by the
// position of the POST in the handshake (both HTTP clients send initialize as their first and the notification
// as their second POST). Returns true when the request was consumed.
func (s *recServer) faultBeforeRead(w http.ResponseWriter, r *http.Request) bool {
	if r.Method != http.MethodPost {
		return false
	}
	s.mu.Lock()
	fp := s.fault
	hit := false
	if fp != nil {
		fp.posts++
		hit = fp.kind == fDropBeforeRead && ((fp.at == atInitialize && fp.posts == 1) || (fp.at == atInitialized && fp.posts == 2))
		if hit {
			fp.fired++
			s.wire = append(s.wire, fmt.Sprintf("POST %s [fault at=%s: connection reset before the body was read]", r.URL.Path, fp.at))
		}
	}
	s.mu.Unlock()
	if hit {
		resetConn(w)
	}
	return hit
}

// faultAfterRead applies a server-side fault to a request that has been read and recorded (wire index wi).
// Returns true when the request was consumed.
func (s *recServer) faultAfterRead(w http.ResponseWriter, r *http.Request, h rpcHead, variant int, wi int) bool {
	step := ""
	switch {
	case r.Method == http.MethodGet && s.legacy && r.URL.Path == "/sse":
		step = atStream
	case r.Method == http.MethodGet && !s.legacy:
		step = atGet
	case r.Method == http.MethodPost && h.Method == "initialize":
		step = atInitialize
	case r.Method == http.MethodPost && h.Method == "notifications/initialized":
		step = atInitialized
	}
	s.mu.Lock()
	fp := s.fault
	hit := fp != nil && step != "" && !clientSideFault(fp.kind) && fp.kind != fDropBeforeRead &&
		(fp.at == step || (fp.at == atAnswer && step == atInitialize))
	var kind string
	var cancel context.CancelFunc
	if hit {
		fp.fired++
		kind, cancel = fp.kind, fp.cancel
		if wi < len(s.wire) {
			s.wire[wi] += fmt.Sprintf(" [fault at=%s: %s]", fp.at, kind)
		}
	}
	s.mu.Unlock()
	if !hit {
		return false
	}
	switch kind {
	case fDropAfterRead:
		resetConn(w)
	case fStatus500:
		http.Error(w, "scripted failure", http.StatusInternalServerError)
	case fStatus404:
		http.Error(w, "scripted failure", http.StatusNotFound)
	case fTruncated:
		ans := scriptedAnswer(mHealthy, variant, h)
		w.Header().Set("Content-Type", "application/json")
		w.Header().Set("Content-Length", fmt.Sprint(len(ans)))
		w.WriteHeader(http.StatusOK)
		_, _ = io.WriteString(w, ans[:len(ans)/2])
		if fl, ok := w.(http.Flusher); ok {
			fl.Flush()
		}
		panic(http.ErrAbortHandler)
	case fSSECut, fNoEndpoint:
		w.Header().Set("Content-Type", "text/event-stream")
		w.WriteHeader(http.StatusOK)
		if fl, ok := w.(http.Flusher); ok {
			fl.Flush()
		}
	case fNotSSE:
		w.Header().Set("Content-Type", "text/plain")
		w.WriteHeader(http.StatusOK)
		_, _ = io.WriteString(w, "this is not an event stream\n")
	case fCancelInFlight:
		if cancel != nil {
			cancel()
		}
		// no answer: the client gives the request up (watchdog only bounds the handler)
		select {
		case <-r.Context().Done():
		case <-time.After(20 * time.Second):
		}
		resetConn(w)
	case fStreamCut:
		s.mu.Lock()
		id := r.URL.Query().Get("sessionId")
		ls := s.sessions[id]
		delete(s.sessions, id)
		s.mu.Unlock()
		w.WriteHeader(http.StatusAccepted)
		if ls != nil {
			close(ls.kill)
		}
	default:
		return false
	}
	return true
}

// ---- client side (per-request hook) ----

type clientPlan struct {
	legacy   bool
	at, kind string
	cancel   context.CancelFunc
	fired    atomic.Int32
}

// requestStep names the handshake step an outgoing request of the library belongs to.
func requestStep(legacy bool, req *http.Request) string {
	switch req.Method {
	case http.MethodGet:
		if legacy {
			return atStream
		}
		return atGet
	case http.MethodPost:
		if req.GetBody == nil {
			return ""
		}
		rc, err := req.GetBody()
		if err != nil {
			return ""
		}
		b, _ := io.ReadAll(rc)
		rc.Close()
		var h rpcHead
		_ = json.Unmarshal(bytes.TrimSpace(b), &h)
		switch h.Method {
		case "initialize":
			return atInitialize
		case "notifications/initialized":
			return atInitialized
		}
	}
	return ""
}

// beforeRequestHook is installed on the HTTP clients of histories that contain a client-side fault; it does
// nothing unless a plan is armed and the request belongs to the planned step.
func beforeRequestHook(cur *atomic.Pointer[clientPlan]) func(ctx context.Context, req *http.Request) error {
	return func(ctx context.Context, req *http.Request) error {
		p := cur.Load()
		if p == nil || requestStep(p.legacy, req) != p.at {
			return nil
		}
		p.fired.Add(1)
		switch p.kind {
		case fBeforeReqErr:
			return errors.New("scripted before-request failure")
		case fCancelBefore:
			if p.cancel != nil {
				p.cancel()
			}
		}
		return nil
	}
}

func historyHasClientSideFault(h History) bool {
	for _, st := range h.Steps {
		if st.Mode == mFault && clientSideFault(st.Fault) {
			return true
		}
	}
	return false
}

// ---- stdio: the fault travels in the mode file as "fault:<at>:<kind>" ----

func stdioFaultMode(at, kind string) string { return "fault:" + at + ":" + kind }

func parseStdioFault(mode string) (at, kind string, ok bool) {
	p := strings.Split(mode, ":")
	if len(p) != 3 || p[0] != mFault {
		return "", "", false
	}
	return p[1], p[2], true
}
