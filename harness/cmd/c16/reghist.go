package main

// Registration HISTORIES between handshakes (part A, third scenario).
//
// The statement ties the advertised capability set to what is registered "at that time". What is registered
// at a time is the result of a history, and histories contain more than additions: tools are unregistered
// (one, several, all, unknown names), names are registered again, a removed tool is replaced by a first prompt
// or resource so that the number of registered items is the same as before, a server goes back to zero tools,
// resource templates come and go next to resources. One server lives through many handshakes: fresh sessions
// that are closed again, sessions that stay open next to each other, a second initialize on an open session,
// the library's own client. After every step the reference registry (four name sets, written here) says what
// must be advertised; every successful initialize answer is compared with it in both directions.

import (
	"context"
	"encoding/json"
	"fmt"
	"math/rand"
	"net"
	"net/http"
	"net/url"
	"sort"
	"strings"
	"time"

	mcp "trpc.group/trpc-go/trpc-mcp-go"

	"verifharness/lib/kit"
	"verifharness/lib/peer"
	"verifharness/lib/vh"
)

// operations of a registration history
const (
	opHandshake  = "handshake"        // fresh raw session, closed afterwards
	opHandKeep   = "handshake-keep"   // fresh raw session that stays open until the history ends
	opReinit     = "initialize-again" // another initialize on the newest open session
	opHandClient = "handshake-client" // the library's own client (Streamable / legacy SSE)
	opRegTool    = "register-tool"
	opUnreg      = "unregister-tools"
	opRegPrompt  = "register-prompt"
	opRegRes     = "register-resource"
	opRegResMany = "register-resources"
	opRegTmpl    = "register-template"
)

type regOp struct {
	Op    string   `json:"op"`
	Names []string `json:"names,omitempty"`
}

type regHistory struct {
	Name  string  `json:"name"` // hand-written: its name; seeded: "random"
	Fixed bool    `json:"fixed"`
	Ops   []regOp `json:"ops"`
}

func isHandshakeOp(op string) bool {
	return op == opHandshake || op == opHandKeep || op == opReinit || op == opHandClient
}

// regModel is the reference registry: what is registered is a set of names per class.
type regModel struct {
	tools, prompts, resources, templates map[string]bool
}

func newRegModel() *regModel {
	return &regModel{tools: map[string]bool{}, prompts: map[string]bool{}, resources: map[string]bool{}, templates: map[string]bool{}}
}

func (m *regModel) total() int {
	return len(m.tools) + len(m.prompts) + len(m.resources) + len(m.templates)
}

func keysOf(s map[string]bool) []string {
	out := make([]string, 0, len(s))
	for k := range s {
		out = append(out, k)
	}
	sort.Strings(out)
	return out
}

func (m *regModel) fingerprint() string {
	return strings.Join(keysOf(m.tools), ",") + "|" + strings.Join(keysOf(m.prompts), ",") + "|" + strings.Join(keysOf(m.resources), ",") + "|" + strings.Join(keysOf(m.templates), ",")
}

func (m *regModel) snapshot() map[string][]string {
	return map[string][]string{"tools": keysOf(m.tools), "prompts": keysOf(m.prompts), "resources": keysOf(m.resources), "resource_templates": keysOf(m.templates)}
}

// apply performs a registration step on the model; it reports how many entries were added and removed.
func (m *regModel) apply(op regOp) (added, removed int) {
	add := func(set map[string]bool, names []string) {
		for _, n := range names {
			if !set[n] {
				set[n] = true
				added++
			}
		}
	}
	switch op.Op {
	case opRegTool:
		add(m.tools, op.Names)
	case opRegPrompt:
		add(m.prompts, op.Names)
	case opRegRes, opRegResMany:
		add(m.resources, op.Names)
	case opRegTmpl:
		add(m.templates, op.Names)
	case opUnreg:
		for _, n := range op.Names {
			if m.tools[n] {
				delete(m.tools, n)
				removed++
			}
		}
	}
	return
}

// sinceLast describes what happened to the registry between the previous handshake and this one.
type sinceLast struct {
	first            bool
	added, removed   int
	reRegistered     int // a registration of a name that was registered already
	unknownRemoved   int // an unregistration naming nothing registered
	totalAtLast      int
	fingerprintAtLas string
	hadPrompts       bool
	hadResources     bool
}

func (s *sinceLast) class(m *regModel) string {
	switch {
	case s.first:
		return "first-handshake"
	case s.added == 0 && s.removed == 0:
		if s.reRegistered > 0 || s.unknownRemoved > 0 {
			return "no-effective-change"
		}
		return "nothing-happened"
	case s.removed == 0:
		return "additions-only"
	case s.added == 0:
		return "removals-only"
	case m.fingerprint() == s.fingerprintAtLas:
		return "removed-and-restored"
	case m.total() == s.totalAtLast:
		return "replacement-same-count"
	default:
		return "replacement-other-count"
	}
}

// applyToServer performs a registration step on the real server.
func applyToServer(in *kit.Instance, op regOp) error {
	switch op.Op {
	case opRegTool:
		for _, n := range op.Names {
			registerTool(in, n)
		}
	case opRegPrompt:
		for _, n := range op.Names {
			registerPrompt(in, n)
		}
	case opRegRes:
		for _, n := range op.Names {
			registerResource(in, n)
		}
	case opRegResMany:
		for _, n := range op.Names {
			uri := n
			in.RegisterResources(&mcp.Resource{URI: uri, Name: "rm"}, func(ctx context.Context, req *mcp.ReadResourceRequest) ([]mcp.ResourceContents, error) {
				return []mcp.ResourceContents{mcp.TextResourceContents{URI: uri, Text: "a"}, mcp.TextResourceContents{URI: uri, Text: "b"}}, nil
			})
		}
	case opRegTmpl:
		for _, n := range op.Names {
			tmpl := mcp.NewResourceTemplate("tmpl://"+n+"/{id}", n)
			h := func(ctx context.Context, req *mcp.ReadResourceRequest) ([]mcp.ResourceContents, error) {
				return []mcp.ResourceContents{mcp.TextResourceContents{URI: req.Params.URI, Text: "t"}}, nil
			}
			switch {
			case in.Server != nil:
				in.Server.RegisterResourceTemplate(tmpl, h)
			case in.SSE != nil:
				in.SSE.RegisterResourceTemplate(tmpl, h)
			case in.Stdio != nil:
				in.Stdio.RegisterResourceTemplate(tmpl, h)
			}
		}
	case opUnreg:
		return in.UnregisterTools(op.Names...)
	}
	return nil
}

var (
	toolPool   = []string{"t-a", "t-b", "t-c", "t-d", "t-e"}
	promptPool = []string{"p-a", "p-b", "p-c"}
	resPool    = []string{"res://a", "res://b", "res://c"}
	tmplPool   = []string{"tm-a", "tm-b"}
)

func xH(flavour string) regOp        { return regOp{Op: flavour} }
func xTool(names ...string) regOp    { return regOp{Op: opRegTool, Names: names} }
func xUnreg(names ...string) regOp   { return regOp{Op: opUnreg, Names: names} }
func xPrompt(names ...string) regOp  { return regOp{Op: opRegPrompt, Names: names} }
func xRes(names ...string) regOp     { return regOp{Op: opRegRes, Names: names} }
func xResMany(names ...string) regOp { return regOp{Op: opRegResMany, Names: names} }
func xTmpl(names ...string) regOp    { return regOp{Op: opRegTmpl, Names: names} }

// fixedRegHistories are the corner histories written by hand; H is the handshake flavour used throughout
// (every corner is run once per flavour).
func fixedRegHistories(H string) []regHistory {
	h := func() regOp { return xH(H) }
	mk := func(name string, ops ...regOp) regHistory {
		return regHistory{Name: name, Fixed: true, Ops: ops}
	}
	return []regHistory{
		mk("tool-replaced-by-first-prompt", xTool("t-a", "t-b"), h(), xUnreg("t-a"), xPrompt("p-a"), h(), xUnreg("t-b"), xRes("res://a"), h()),
		mk("tool-replaced-by-first-resource", xTool("t-a"), h(), xUnreg("t-a"), xRes("res://a"), h(), xPrompt("p-a"), h()),
		mk("tool-replaced-by-first-multi-resource", xTool("t-a"), h(), xUnreg("t-a"), xResMany("res://a"), h()),
		mk("two-tools-replaced-by-prompt-and-resource", xTool("t-a", "t-b", "t-c"), h(), xUnreg("t-a", "t-b"), xPrompt("p-a"), xRes("res://a"), h()),
		mk("all-tools-removed-then-everything", xTool("t-a", "t-b", "t-c"), h(), xUnreg("t-a", "t-b", "t-c"), h(), xPrompt("p-a"), xRes("res://a"), xTmpl("tm-a"), h()),
		mk("all-tools-replaced-at-once", xTool("t-a", "t-b", "t-c"), h(), xUnreg("t-c", "t-a", "t-b"), xPrompt("p-a", "p-b"), xRes("res://a"), h()),
		mk("tool-swapped-for-tool-then-for-prompt", xTool("t-a"), h(), xUnreg("t-a"), xTool("t-b"), h(), xUnreg("t-b"), xPrompt("p-a"), h(), xTool("t-a"), h()),
		mk("same-names-registered-again", xTool("t-a"), xPrompt("p-a"), h(), xTool("t-a"), xPrompt("p-a"), h(), xRes("res://a"), xUnreg("t-a"), h(), xRes("res://a"), h()),
		mk("unknown-names-unregistered", xTool("t-a"), h(), xUnreg("no-such-tool"), xPrompt("p-a"), h(), xUnreg("no-such-tool", "t-a", "t-a"), xRes("res://a"), h(), xUnreg(), h()),
		mk("removed-and-registered-again", xTool("t-a", "t-b"), h(), xUnreg("t-a"), xTool("t-a"), h(), xUnreg("t-b"), h(), xTool("t-b"), xPrompt("p-a"), xUnreg("t-a"), h()),
		mk("template-next-to-resources", xTmpl("tm-a"), xTool("t-a"), h(), xUnreg("t-a"), xRes("res://a"), h(), xTmpl("tm-b"), h()),
		mk("tool-replaced-by-template-then-resource", xTool("t-a", "t-b"), h(), xUnreg("t-a"), xTmpl("tm-a"), h(), xUnreg("t-b"), xRes("res://a"), h()),
		mk("back-to-an-earlier-count", xTool("t-a"), h(), xTool("t-b"), h(), xPrompt("p-a"), h(), xUnreg("t-a", "t-b"), xRes("res://a"), h(), xUnreg("t-a"), h()),
		mk("zero-tools-from-the-start", h(), xPrompt("p-a"), h(), xTool("t-a"), h(), xUnreg("t-a"), xRes("res://a"), h()),
		mk("prompt-first-then-tool-swapped-for-resource", xPrompt("p-a"), xTool("t-a"), h(), xUnreg("t-a"), xRes("res://a"), h(), xTool("t-a", "t-b"), h(), xUnreg("t-a", "t-b"), xPrompt("p-b"), xTmpl("tm-a"), h()),
		mk("many-handshakes-nothing-changes", xTool("t-a"), xPrompt("p-a"), h(), h(), h(), xUnreg("t-a"), h(), h(), xRes("res://a"), h(), h()),
	}
}

func pick(rng *rand.Rand, pool []string) string { return pool[rng.Intn(len(pool))] }

// genRegHistory builds one seeded history. It keeps its own copy of the registry only to aim (to name
// registered tools when unregistering, to replace as many items as it removes); the oracle replays the
// history on a fresh model.
func genRegHistory(rng *rand.Rand) regHistory {
	m := newRegModel()
	var ops []regOp
	push := func(op regOp) {
		ops = append(ops, op)
		m.apply(op)
	}
	handshake := func() {
		switch x := rng.Intn(100); {
		case x < 45:
			push(xH(opHandshake))
		case x < 75:
			push(xH(opHandKeep))
		case x < 92:
			push(xH(opReinit))
		default:
			push(xH(opHandClient))
		}
	}
	addItem := func() {
		switch x := rng.Intn(100); {
		case x < 25:
			push(xTool(pick(rng, toolPool)))
		case x < 55:
			push(xPrompt(pick(rng, promptPool)))
		case x < 78:
			push(xRes(pick(rng, resPool)))
		case x < 88:
			push(xResMany(pick(rng, resPool)))
		default:
			// a template name can be registered only once (a second registration is refused by the library)
			n := pick(rng, tmplPool)
			if !m.templates[n] {
				push(xTmpl(n))
			} else {
				push(xPrompt(pick(rng, promptPool)))
			}
		}
	}
	// start state
	for i, n := 0, rng.Intn(4); i < n; i++ {
		push(xTool(pick(rng, toolPool)))
	}
	if rng.Intn(5) == 0 {
		push(xPrompt(pick(rng, promptPool)))
	}
	if rng.Intn(5) == 0 {
		push(xRes(pick(rng, resPool)))
	}
	if rng.Intn(4) != 0 {
		handshake()
	}
	steps := 5 + rng.Intn(10)
	for i := 0; i < steps; i++ {
		switch x := rng.Intn(100); {
		case x < 28:
			handshake()
		case x < 48: // unregistration in its variants
			reg := keysOf(m.tools)
			rng.Shuffle(len(reg), func(a, b int) { reg[a], reg[b] = reg[b], reg[a] })
			switch v := rng.Intn(10); {
			case v < 4 && len(reg) > 0:
				push(xUnreg(reg[0]))
			case v < 6 && len(reg) > 1:
				push(xUnreg(reg[:2]...))
			case v < 7 && len(reg) > 0:
				push(xUnreg(reg...))
			case v < 8:
				push(xUnreg("no-such-tool"))
			case v < 9 && len(reg) > 0:
				push(xUnreg("no-such-tool", reg[0], reg[0]))
			default:
				push(xUnreg())
			}
		case x < 68: // replacement: as many items come as go
			reg := keysOf(m.tools)
			if len(reg) == 0 {
				push(xTool(pick(rng, toolPool)))
				continue
			}
			rng.Shuffle(len(reg), func(a, b int) { reg[a], reg[b] = reg[b], reg[a] })
			n := 1 + rng.Intn(len(reg))
			before := m.total()
			push(xUnreg(reg[:n]...))
			for tries := 0; m.total() < before && tries < 12; tries++ {
				addItem()
			}
		case x < 80:
			push(xTool(pick(rng, toolPool)))
		default:
			addItem()
		}
	}
	if !isHandshakeOp(ops[len(ops)-1].Op) {
		handshake()
	}
	return regHistory{Name: "random", Ops: ops}
}

// regStats counts, per server configuration, what the histories really exercised.
type regStats struct {
	histories, handshakes, judgedOK                   int
	afterRemoval, sameCountReplacement, zeroTools     int
	firstPromptOrResourceAfterRemoval, severalPerSrv  int
	unregCalls, unregErrors                           int
	reinitJudged, reinitError, reinitNoAnswer         int
	keptOpenMax, clientHandshakes                     int
	templatesOnlyAdvertised, templatesOnlyNotAdvertis int
}

// hsAnswer is one handshake outcome in the terms of the oracle.
type hsAnswer struct {
	ok       bool // a success answer was obtained
	skip     string
	tools    bool
	prompts  bool
	resource bool
	raw      interface{}
}

// newResetPeer is an HTTP peer whose connections are closed with a reset instead of FIN (SO_LINGER 0).
func newResetPeer() *peer.HTTPPeer {
	p := peer.NewHTTPPeer()
	if tr, ok := p.Client.Transport.(*http.Transport); ok {
		d := &net.Dialer{Timeout: 10 * time.Second}
		tr.DialContext = func(ctx context.Context, network, addr string) (net.Conn, error) {
			c, err := d.DialContext(ctx, network, addr)
			if tc, ok := c.(*net.TCPConn); ok && err == nil {
				_ = tc.SetLinger(0)
			}
			return c, err
		}
	}
	return p
}

// runRegHistory executes one history on a fresh server and judges every handshake.
func runRegHistory(ctx context.Context, r *vh.Run, kind kit.Kind, h regHistory, st *regStats, sampleIt bool) {
	in := kit.Start(kind, kit.Opts{})
	var open []*kit.RawConn
	// One HTTP peer carries all raw sessions of a history (the POSTs share a keep-alive connection, a legacy SSE
	// session adds its event stream): a session is a matter of the session id / the event stream, not of the TCP
	// connection. Thousands of histories with a connection per handshake, each closed from the client's side, would
	// leave the loopback ports of a shared machine in TIME_WAIT (no port left to listen on); the peer's connections
	// are therefore closed with a reset (SO_LINGER 0), which leaves no TIME_WAIT behind, after the server is stopped.
	var shared *peer.HTTPPeer
	streams := map[*kit.RawConn]*peer.Stream{}
	if kind != kit.Stdio {
		shared = newResetPeer()
	}
	closeConn := func(c *kit.RawConn) {
		if shared != nil {
			c.HP = nil // the shared peer outlives the session
		}
		if s := streams[c]; s != nil {
			s.Close()
			delete(streams, c)
		}
		c.Close()
	}
	defer func() {
		for _, c := range open {
			closeConn(c)
		}
		in.Close()
		if shared != nil {
			shared.Close()
		}
	}()
	// dial opens a raw session on the shared peer.
	dial := func() (*kit.RawConn, error) {
		switch kind {
		case kit.Stdio:
			return in.Dial(ctx)
		case kit.LSSE:
			c := &kit.RawConn{In: in, HP: shared, Headers: map[string]string{}, Log: kit.NewFrameLog()}
			s, re := shared.OpenStream(ctx, "GET", in.URL(), map[string]string{"Accept": "text/event-stream"}, 8192)
			if s == nil {
				return nil, fmt.Errorf("legacy SSE connect: status=%d err=%s", re.Status, re.Err)
			}
			select {
			case ev, ok := <-s.Events:
				if !ok || ev.Event != "endpoint" {
					s.Close()
					return nil, fmt.Errorf("legacy SSE: first event is %q (%q), want endpoint", ev.Event, ev.Data)
				}
				u, err := url.Parse(ev.Data)
				if err != nil {
					s.Close()
					return nil, err
				}
				base, _ := url.Parse(in.BaseURL())
				c.MsgURL = base.ResolveReference(u).String()
				c.SessionID = u.Query().Get("sessionId")
			case <-time.After(15 * time.Second):
				s.Close()
				return nil, fmt.Errorf("legacy SSE: no endpoint event within the watchdog")
			}
			lg := c.Log
			go func() {
				for ev := range s.Events {
					lg.Add(ev.Event, ev.Data, ev.ID)
				}
				lg.CloseLog()
			}()
			streams[c] = s
			return c, nil
		default:
			return &kit.RawConn{In: in, HP: shared, Headers: map[string]string{}, Log: kit.NewFrameLog()}, nil
		}
	}
	st.histories++
	m := newRegModel()
	since := sinceLast{first: true}
	nHandshakes := 0
	type traceStep struct {
		Op         regOp               `json:"op"`
		Err        string              `json:"err,omitempty"`
		Registered map[string][]string `json:"registered_after,omitempty"`
		Advertised map[string]bool     `json:"advertised,omitempty"`
		Flavour    string              `json:"flavour,omitempty"`
		Since      string              `json:"since_last_handshake,omitempty"`
	}
	var trace []traceStep

	initOn := func(c *kit.RawConn, noSess bool) hsAnswer {
		rawID := fmt.Sprintf(`"h-%d"`, rawSeq.Add(1))
		want := kit.CanonID(json.RawMessage(rawID))
		ex := c.Post(ctx, initBodyFor(rawID, strCase("supported-2025-03-26", "2025-03-26")), kit.PostOpts{WantID: want, NoSessionID: noSess, Wait: 15 * time.Second})
		a := parseInitAnswer(ex, want)
		if c.SessionID == "" && ex.HTTP != nil && ex.HTTP.Sess != "" && kind.IsStreamable() {
			c.SessionID = ex.HTTP.Sess
		}
		switch {
		case !a.Got && a.TimedOut:
			return hsAnswer{skip: "timeout", raw: a}
		case !a.Got:
			return hsAnswer{skip: "no-answer", raw: a}
		case a.IsError:
			return hsAnswer{skip: "error-answer", raw: a}
		}
		return hsAnswer{ok: true, tools: a.Caps["tools"], prompts: a.Caps["prompts"], resource: a.Caps["resources"], raw: a}
	}

	doHandshake := func(op string) (hsAnswer, string) {
		flavour := op
		// degrade the flavours a configuration cannot carry
		if kind == kit.Stdio {
			// one transport loop per stdio server at a time: "keep" opens the connection, later ones use it again
			switch {
			case flavour == opHandClient:
				flavour = opHandshake
			case flavour == opHandKeep && len(open) > 0:
				flavour = opReinit
			}
			if flavour == opHandshake && len(open) > 0 {
				flavour = opReinit
			}
		}
		if flavour == opReinit && len(open) == 0 {
			flavour = opHandKeep
		}
		switch flavour {
		case opHandshake, opHandKeep:
			c, err := dial()
			if err != nil {
				return hsAnswer{skip: "dial: " + err.Error()}, flavour
			}
			a := initOn(c, true)
			if flavour == opHandKeep {
				open = append(open, c)
				if len(open) > st.keptOpenMax {
					st.keptOpenMax = len(open)
				}
			} else {
				closeConn(c)
			}
			return a, flavour
		case opReinit:
			c := open[len(open)-1]
			return initOn(c, false), flavour
		default: // library client
			lc, err := in.NewClient(mcp.WithClientGetSSEEnabled(false))
			if err != nil {
				return hsAnswer{skip: "client: " + err.Error()}, flavour
			}
			cctx, cancel := context.WithTimeout(ctx, 20*time.Second)
			resI, err := lc.Initialize(cctx, &mcp.InitializeRequest{})
			cancel()
			defer lc.Close()
			if err != nil {
				return hsAnswer{skip: "client-initialize: " + err.Error()}, flavour
			}
			st.clientHandshakes++
			return hsAnswer{ok: true, tools: resI.Capabilities.Tools != nil, prompts: resI.Capabilities.Prompts != nil, resource: resI.Capabilities.Resources != nil,
				raw: map[string]interface{}{"capabilities_at_client": resI.Capabilities, "protocolVersion": resI.ProtocolVersion}}, flavour
		}
	}

	for i, op := range h.Ops {
		if !isHandshakeOp(op.Op) {
			before := map[string]bool{}
			for _, n := range op.Names {
				switch op.Op {
				case opRegTool:
					before[n] = m.tools[n]
				case opRegPrompt:
					before[n] = m.prompts[n]
				case opRegRes, opRegResMany:
					before[n] = m.resources[n]
				}
			}
			err := applyToServer(in, op)
			a, rm := m.apply(op)
			since.added += a
			since.removed += rm
			ts := traceStep{Op: op, Registered: m.snapshot()}
			if op.Op == opUnreg {
				st.unregCalls++
				if err != nil {
					st.unregErrors++
					ts.Err = err.Error()
				}
				if rm == 0 {
					since.unknownRemoved++
				}
			} else {
				for _, was := range before {
					if was {
						since.reRegistered++
					}
				}
			}
			trace = append(trace, ts)
			continue
		}
		ans, flavour := doHandshake(op.Op)
		cls := since.class(m)
		wantP, wantR := len(m.prompts) > 0, len(m.resources) > 0
		templatesOnly := len(m.resources) == 0 && len(m.templates) > 0
		ts := traceStep{Op: op, Flavour: flavour, Since: cls, Registered: m.snapshot()}
		if ans.ok {
			ts.Advertised = map[string]bool{"tools": ans.tools, "prompts": ans.prompts, "resources": ans.resource}
		} else {
			ts.Err = ans.skip
		}
		trace = append(trace, ts)
		st.handshakes++
		r.Eval(1)
		if !ans.ok {
			switch {
			case flavour == opReinit && ans.skip == "error-answer":
				// a second initialize on an open session may be refused; the statement speaks about the answers that are given
				st.reinitError++
			case flavour == opReinit && ans.skip == "no-answer":
				st.reinitNoAnswer++
			case ans.skip == "timeout" || strings.HasPrefix(ans.skip, "dial") || strings.HasPrefix(ans.skip, "client"):
				r.Inconclusive(fmt.Sprintf("server %s: registration history %q step %d (%s): handshake not obtained: %s", kind, h.Name, i, flavour, ans.skip))
			default:
				r.Violation(fmt.Sprintf("C16|server|%s|caps=history|flavour=%s|%s", kind, flavour, ans.skip),
					fmt.Sprintf("%s: well-formed initialize (%s) in a registration history got %s", kind, flavour, ans.skip),
					map[string]interface{}{"kind": kind, "history": h.Name, "failing_step": i, "trace": trace, "answer": ans.raw})
			}
			// the handshake did not observe the registry: the next one is judged against the same baseline
			continue
		}
		nHandshakes++
		wit := map[string]interface{}{"kind": kind, "history": h.Name, "failing_step": i, "flavour": flavour, "since_last_handshake": cls,
			"registered_now": m.snapshot(), "expected": map[string]interface{}{"tools": true, "prompts": wantP, "resources": wantR, "resources_open_templates_only": templatesOnly},
			"trace": trace, "answer": ans.raw}
		sig := fmt.Sprintf("C16|server|%s|caps=history:%s|", kind, cls)
		good := true
		if !ans.tools {
			r.Violation(sig+"tools-missing", fmt.Sprintf("%s: initialize answer without the tools capability (history %q, %s, %d tools registered)", kind, h.Name, cls, len(m.tools)), wit)
			good = false
		}
		if ans.prompts != wantP {
			sym := "prompts-missing"
			if ans.prompts {
				sym = "prompts-unexpected"
			}
			r.Violation(sig+sym, fmt.Sprintf("%s: prompts capability present=%v while prompts registered at that time=%v (history %q, since the last handshake: %s)", kind, ans.prompts, keysOf(m.prompts), h.Name, cls), wit)
			good = false
		}
		switch {
		case templatesOnly:
			// only resource templates are registered: whether that is "a resource" the statement leaves open
			if ans.resource {
				st.templatesOnlyAdvertised++
			} else {
				st.templatesOnlyNotAdvertis++
			}
		case ans.resource != wantR:
			sym := "resources-missing"
			if ans.resource {
				sym = "resources-unexpected"
			}
			r.Violation(sig+sym, fmt.Sprintf("%s: resources capability present=%v while resources registered at that time=%v (history %q, since the last handshake: %s)", kind, ans.resource, keysOf(m.resources), h.Name, cls), wit)
			good = false
		}
		if good {
			st.judgedOK++
			b := func(x bool) string {
				if x {
					return "1"
				}
				return "0"
			}
			r.Distinct(fmt.Sprintf("server|%s|history|%s|%s|p%s-r%s|tools0=%v", kind, cls, flavour, b(wantP), b(wantR), len(m.tools) == 0))
		}
		if flavour == opReinit {
			st.reinitJudged++
		}
		if since.removed > 0 {
			st.afterRemoval++
			if !since.first && ((wantP && !since.hadPrompts) || (wantR && !since.hadResources)) {
				st.firstPromptOrResourceAfterRemoval++
			}
		}
		if cls == "replacement-same-count" {
			st.sameCountReplacement++
		}
		if len(m.tools) == 0 {
			st.zeroTools++
		}
		if nHandshakes == 2 {
			st.severalPerSrv++
		}
		if good {
			// the class of a wrong answer is taken relative to the last answer that agreed with the registry, so that
			// a stale capability set is reported under the step that made it stale for as long as it stays stale
			since = sinceLast{totalAtLast: m.total(), fingerprintAtLas: m.fingerprint(), hadPrompts: wantP, hadResources: wantR}
		}
	}
	if sampleIt {
		r.Sample(map[string]interface{}{"part": "server-registration-history", "kind": kind, "history": h.Name, "trace": trace})
	}
}

// registrationHistories runs the hand-written corners (once per handshake flavour) and nRandom seeded histories.
func registrationHistories(r *vh.Run, kind kit.Kind, nRandom int) {
	ctx, cancel := context.WithTimeout(context.Background(), 15*time.Minute)
	defer cancel()
	st := &regStats{}
	flavours := []string{opHandshake, opHandKeep, opReinit}
	if kind != kit.Stdio {
		flavours = append(flavours, opHandClient)
	}
	for _, f := range flavours {
		for i, h := range fixedRegHistories(f) {
			h.Name = h.Name + "/" + f
			runRegHistory(ctx, r, kind, h, st, i == 0 && f == opHandshake && (kind == kit.SJSON || kind == kit.SLSSE))
		}
	}
	rng := r.Rand("reghist-" + string(kind))
	for i := 0; i < nRandom; i++ {
		runRegHistory(ctx, r, kind, genRegHistory(rng), st, i == 0 && (kind == kit.LSSE || kind == kit.Stdio))
	}
	p := "reghist_" + string(kind) + "_"
	r.Count(p+"histories", int64(st.histories))
	r.Count(p+"handshakes", int64(st.handshakes))
	r.Count(p+"handshakes_agreeing_with_registry", int64(st.judgedOK))
	r.Count(p+"handshakes_after_a_removal", int64(st.afterRemoval))
	r.Count(p+"handshakes_after_same_count_replacement", int64(st.sameCountReplacement))
	r.Count(p+"handshakes_first_prompt_or_resource_came_with_a_removal", int64(st.firstPromptOrResourceAfterRemoval))
	r.Count(p+"handshakes_with_zero_tools", int64(st.zeroTools))
	r.Count(p+"servers_with_several_handshakes", int64(st.severalPerSrv))
	r.Count(p+"unregister_calls", int64(st.unregCalls))
	r.Count(p+"unregister_calls_returning_error", int64(st.unregErrors))
	r.Count(p+"initialize_again_judged", int64(st.reinitJudged))
	r.Count(p+"initialize_again_refused", int64(st.reinitError))
	r.Count(p+"initialize_again_unanswered", int64(st.reinitNoAnswer))
	r.Count(p+"library_client_handshakes", int64(st.clientHandshakes))
	r.Count(p+"templates_only_resources_advertised", int64(st.templatesOnlyAdvertised))
	r.Count(p+"templates_only_resources_not_advertised", int64(st.templatesOnlyNotAdvertis))
	r.Max(p+"sessions_open_side_by_side", int64(st.keptOpenMax))
	r.Count("reghist_handshakes", int64(st.handshakes))
	r.Require(st.handshakes > 0 && st.severalPerSrv > 0, "server %s: no registration history with several handshakes on one server was observed", kind)
	r.Require(st.afterRemoval > 0, "server %s: no handshake after an unregistration was observed", kind)
	r.Require(st.sameCountReplacement > 0, "server %s: no handshake after a count-preserving replacement was observed", kind)
	r.Require(st.firstPromptOrResourceAfterRemoval > 0, "server %s: no handshake where a first prompt/resource arrived together with a removal was observed", kind)
	r.Require(st.zeroTools > 0, "server %s: no handshake with zero tools was observed", kind)
	r.Require(st.unregErrors > 0, "server %s: no unregistration of unknown names was observed", kind)
}
