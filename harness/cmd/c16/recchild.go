package main

import (
	"bytes"
	"encoding/json"
	"fmt"
	"os"
	"os/signal"
	"strconv"
	"strings"
	"syscall"
	"time"
	"unsafe"
)

// Role of the recording stdio server child (spawned by the library's stdio client).
const recChildRole = "c16-stdio-rec"

// Record file lines written by the child:
//   spawned <pid>   first thing after start-up (signal handler already installed)
//   rx <raw line>   one line read from stdin
//   sync            answer to SIGUSR1, written only while stdin is drained
//   exit-down       the child exits because the scripted behaviour is "down"
//   eof             stdin reached end of file

func fionread(fd int) int {
	var n int32
	_, _, e := syscall.Syscall(syscall.SYS_IOCTL, uintptr(fd), uintptr(0x541B), uintptr(unsafe.Pointer(&n)))
	if e != 0 {
		return 0
	}
	return int(n)
}

func readModeFile(path string) (string, int) {
	b, err := os.ReadFile(path)
	if err != nil {
		return mHealthy, 0
	}
	f := strings.Fields(string(b))
	if len(f) == 0 {
		return mHealthy, 0
	}
	v := 0
	if len(f) > 1 {
		v, _ = strconv.Atoi(f[1])
	}
	return f[0], v
}

// recChildMain is a library-free stdio MCP server: one single-threaded loop that records every stdin
// line before answering it.
func recChildMain() {
	recPath, modePath := os.Getenv("VH_C16_REC"), os.Getenv("VH_C16_MODE")
	f, err := os.OpenFile(recPath, os.O_APPEND|os.O_CREATE|os.O_WRONLY, 0o644)
	if err != nil {
		os.Exit(3)
	}
	rec := func(s string) { _, _ = f.WriteString(s + "\n") }
	sigc := make(chan os.Signal, 64)
	signal.Notify(sigc, syscall.SIGUSR1)
	rec(fmt.Sprintf("spawned %d", os.Getpid()))
	if m, _ := readModeFile(modePath); m == mDown {
		rec("exit-down")
		os.Exit(1)
	} else if _, kind, ok := parseStdioFault(m); ok && kind == fExitAtStart {
		rec("exit-fault")
		os.Exit(1)
	}
	buf := make([]byte, 64<<10)
	var pending []byte
	syncs := 0
	for {
		var fds syscall.FdSet
		fds.Bits[0] = 1
		tv := syscall.Timeval{Usec: 1000}
		n, err := syscall.Select(1, &fds, nil, nil, &tv)
		if err != nil && err != syscall.EINTR {
			rec("select-error " + err.Error())
			os.Exit(2)
		}
		if err == nil && n > 0 {
			m, rerr := syscall.Read(0, buf)
			if rerr == syscall.EINTR || rerr == syscall.EAGAIN {
				continue
			}
			if m <= 0 {
				if len(pending) > 0 {
					rec("rx-partial " + string(pending))
				}
				rec("eof")
				os.Exit(0)
			}
			pending = append(pending, buf[:m]...)
			for {
				i := bytes.IndexByte(pending, '\n')
				if i < 0 {
					break
				}
				line := append([]byte{}, pending[:i]...)
				pending = pending[i+1:]
				rec("rx " + string(line))
				handleRecLine(line, modePath, rec)
			}
		}
	drain:
		for {
			select {
			case <-sigc:
				syncs++
			default:
				break drain
			}
		}
		if syncs > 0 && fionread(0) == 0 {
			if len(pending) > 0 {
				rec("rx-partial " + string(pending))
				pending = nil
			}
			for ; syncs > 0; syncs-- {
				rec("sync")
			}
		}
	}
}

func handleRecLine(line []byte, modePath string, rec func(string)) {
	var h rpcHead
	if json.Unmarshal(line, &h) != nil || h.Method == "" || len(h.ID) == 0 || string(h.ID) == "null" {
		return // notifications and anything unparsable get no answer
	}
	mode, variant := mHealthy, 0
	if h.Method == "initialize" {
		mode, variant = readModeFile(modePath)
		if mode == mDown {
			rec("exit-down")
			os.Exit(1)
		}
		if _, kind, ok := parseStdioFault(mode); ok {
			ans := scriptedAnswer(mHealthy, variant, h)
			switch kind {
			case fExitAtStart, fExitAfterRead:
				rec("exit-fault")
				os.Exit(1)
			case fCloseStdout:
				rec("stdout-closed")
				_ = os.Stdout.Close()
				return // stays alive and keeps recording its stdin
			case fPartialAnswer:
				_, _ = os.Stdout.WriteString(ans[:len(ans)/2])
				rec("exit-fault")
				os.Exit(1)
			case fAnswerThenExit:
				_, _ = os.Stdout.WriteString(ans + "\n")
				rec("exit-fault")
				os.Exit(0)
			case fStdinClosed:
				// nothing can reach this process any more; it stays alive and answers the barrier signal
				rec("stdin-closed")
				_ = syscall.Close(0)
				_, _ = os.Stdout.WriteString(ans + "\n")
				sigc := make(chan os.Signal, 64)
				signal.Notify(sigc, syscall.SIGUSR1)
				for {
					select {
					case <-sigc:
						rec("sync")
					case <-time.After(200 * time.Millisecond):
						if os.Getppid() == 1 {
							os.Exit(0)
						}
					}
				}
			}
			mode = mHealthy
		}
	}
	ans := scriptedAnswer(mode, variant, h)
	_, _ = os.Stdout.WriteString(ans + "\n")
}
