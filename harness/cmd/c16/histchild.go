package main

import (
	"bufio"
	"context"
	"encoding/json"
	"fmt"
	"os"
	"path/filepath"
	"strconv"
	"strings"
	"sync"
	"sync/atomic"
	"syscall"
	"time"

	mcp "trpc.group/trpc-go/trpc-mcp-go"

	"verifharness/lib/kit"
)

// Role of the history-executing child of this check (one per client kind). It only records; the parent judges.
const histChildRole = "c16-hist"

const (
	callWatchdog = 15 * time.Second       // generous bound for a library call on loopback
	hangBound    = 250 * time.Millisecond // cancellation of an Initialize that can never be answered (answer is not JSON)
)

func doOp(ctx context.Context, c mcp.Connector, op string) error {
	var err error
	switch op {
	case "ListTools":
		_, err = c.ListTools(ctx, &mcp.ListToolsRequest{})
	case "CallTool":
		req := &mcp.CallToolRequest{}
		req.Params.Name = "echo"
		req.Params.Arguments = map[string]interface{}{"nonce": "n", "payload": "p"}
		_, err = c.CallTool(ctx, req)
	case "ListPrompts":
		_, err = c.ListPrompts(ctx, &mcp.ListPromptsRequest{})
	case "GetPrompt":
		req := &mcp.GetPromptRequest{}
		req.Params.Name = "p-ok"
		req.Params.Arguments = map[string]string{"who": "x"}
		_, err = c.GetPrompt(ctx, req)
	case "ListResources":
		_, err = c.ListResources(ctx, &mcp.ListResourcesRequest{})
	case "ReadResource":
		req := &mcp.ReadResourceRequest{}
		req.Params.URI = "res://ok"
		_, err = c.ReadResource(ctx, req)
	case "SendRootsListChangedNotification":
		err = c.SendRootsListChangedNotification(ctx)
	default:
		err = fmt.Errorf("harness: unknown op %s", op)
	}
	return err
}

func errText(err error) string {
	if err == nil {
		return ""
	}
	s := err.Error()
	if len(s) > 300 {
		s = s[:300] + "..."
	}
	return s
}

// runHTTPHistory executes one history of a Streamable or legacy SSE client against its own recording server.
func runHTTPHistory(h History) HistObs {
	legacy := h.Client == ckLegacy
	obs := HistObs{Idx: h.Idx, Client: h.Client, GetSSE: h.GetSSE, Fixed: h.Fixed}
	s := newRecServer(legacy, h.GetSSE)
	defer s.close()
	var c *mcp.Client
	var err error
	var plan atomic.Pointer[clientPlan]
	opts := []mcp.ClientOption{mcp.WithClientLogger(kit.Quiet{})}
	if historyHasClientSideFault(h) {
		// client-side faults use the library's documented per-request hook; other histories run without it
		opts = append(opts, mcp.WithHTTPBeforeRequest(beforeRequestHook(&plan)))
	}
	if legacy {
		c, err = mcp.NewSSEClient(s.url(), kit.ClientInfo, opts...)
	} else {
		c, err = mcp.NewClient(s.url(), kit.ClientInfo, append(opts, mcp.WithClientGetSSEEnabled(h.GetSSE))...)
	}
	if err != nil {
		obs.Problem = "client constructor: " + err.Error()
		return obs
	}
	defer c.Close()
	obs.State0 = string(c.GetState())
	everInitOK := false
	for i, st := range h.Steps {
		o := StepObs{Step: st, I: i, OK: true}
		tStep := time.Now()
		t0, g0, b0 := s.touchCount(), s.getCount(), s.bareCount()
		initOKBefore := everInitOK
		switch st.Kind {
		case "init":
			mode := st.Mode
			if h.GetSSE && mode == mNoSess {
				mode = mHealthy
				o.Mode = mode
			}
			d := callWatchdog
			if legacy && mode == mMalA {
				d = hangBound // the legacy client drops an unparsable event; only cancellation ends the call
			}
			ctx, cancel := context.WithTimeout(context.Background(), d)
			var cp *clientPlan
			if mode == mFault {
				s.setMode(mHealthy, st.Var)
				if clientSideFault(st.Fault) {
					cp = &clientPlan{legacy: legacy, at: st.At, kind: st.Fault, cancel: cancel}
					plan.Store(cp)
				} else {
					s.setFault(st.At, st.Fault, cancel)
				}
			} else {
				s.setMode(mode, st.Var)
			}
			_, err := c.Initialize(ctx, &mcp.InitializeRequest{})
			cancel()
			o.OK, o.Err = err == nil, errText(err)
			if err == nil {
				everInitOK = true
			}
			if err == nil && h.GetSSE && !legacy {
				// the library starts its listening-stream GET in the background after a successful handshake;
				// it belongs to this step, so wait until the server has seen it
				dl := time.Now().Add(10 * time.Second)
				for s.getCount() == g0 && time.Now().Before(dl) {
					time.Sleep(200 * time.Microsecond)
				}
				if s.getCount() == g0 {
					o.Note = "listening-stream GET not seen within 10s"
				}
			}
			if mode == mFault && st.At == atGet && err == nil && cp == nil {
				// the GET is counted before the fault is applied to it: let the server finish (resource wait only)
				for dl := time.Now().Add(2 * time.Second); s.faultFired() == 0 && s.getCount() != g0 && time.Now().Before(dl); {
					time.Sleep(200 * time.Microsecond)
				}
			}
			if mode == mFault {
				// Fired = how often the fault was actually applied (0: the handshake never reached that step)
				plan.Store(nil)
				o.Fired = s.clearFault()
				if cp != nil {
					o.Fired = int(cp.fired.Load())
				}
			}
			s.setMode(mHealthy, 0)
		case "op":
			ctx, cancel := context.WithTimeout(context.Background(), callWatchdog)
			err := doOp(ctx, c, st.Op)
			cancel()
			o.OK, o.Err = err == nil, errText(err)
		case "close":
			err := c.Close()
			o.OK, o.Err = err == nil, errText(err)
		case "srvdie":
			// open connections (keep-alive, event streams) are cut; until the next Initialize step scripts the server
			// again, every request is recorded and its connection reset
			s.setMode(mDown, 0)
		case "getstate":
		}
		// A step is charged with the HTTP requests the server received while it ran. Not charged: the
		// Streamable listening-stream GET once a handshake has succeeded (only the background goroutine of
		// that handshake sends it; it normally lands in the Initialize step because of the wait above), and
		// TCP connections that carried no request at all (spare connections dialled by net/http).
		o.Wire = s.wireSince(t0)
		for _, w := range o.Wire {
			if !legacy && initOKBefore && strings.HasPrefix(w, "GET ") && !(st.Kind == "init" && o.OK) {
				o.Note = strings.TrimSpace(o.Note + " listening-stream GET of an earlier handshake arrived during this step (not charged)")
				continue
			}
			o.Touch++
		}
		if nb := s.bareCount() - b0; nb > 0 {
			o.Note = strings.TrimSpace(o.Note + fmt.Sprintf(" %d TCP connection(s) without any request closed during this step (not charged)", nb))
		}
		o.State = string(c.GetState())
		o.Ms = time.Since(tStep).Milliseconds()
		obs.Steps = append(obs.Steps, o)
	}
	return obs
}

// ---- stdio ----

// childPIDs returns the direct children of this process (library-free: /proc).
func childPIDs() map[int]bool {
	out := map[int]bool{}
	files, _ := filepath.Glob("/proc/self/task/*/children")
	found := false
	for _, f := range files {
		b, err := os.ReadFile(f)
		if err != nil {
			continue
		}
		found = true
		for _, p := range strings.Fields(string(b)) {
			if n, err := strconv.Atoi(p); err == nil {
				out[n] = true
			}
		}
	}
	if found {
		return out
	}
	// fallback: scan every process for ppid == self
	self := os.Getpid()
	ents, _ := os.ReadDir("/proc")
	for _, e := range ents {
		pid, err := strconv.Atoi(e.Name())
		if err != nil {
			continue
		}
		if pp, _, ok := procStat(pid); ok && pp == self {
			out[pid] = true
		}
	}
	return out
}

// procStat returns ppid and state letter of a process.
func procStat(pid int) (ppid int, state byte, ok bool) {
	b, err := os.ReadFile(fmt.Sprintf("/proc/%d/stat", pid))
	if err != nil {
		return 0, 0, false
	}
	s := string(b)
	i := strings.LastIndexByte(s, ')')
	if i < 0 || i+2 >= len(s) {
		return 0, 0, false
	}
	f := strings.Fields(s[i+2:])
	if len(f) < 2 {
		return 0, 0, false
	}
	pp, _ := strconv.Atoi(f[1])
	return pp, f[0][0], true
}

// pidOwner caches which record file a child process (keyed by pid and start time) belongs to; histories run
// in parallel and each must count only the processes its own client spawned.
var pidOwner sync.Map

func procStartTime(pid int) string {
	b, err := os.ReadFile(fmt.Sprintf("/proc/%d/stat", pid))
	if err != nil {
		return ""
	}
	s := string(b)
	i := strings.LastIndexByte(s, ')')
	if i < 0 {
		return ""
	}
	f := strings.Fields(s[i+1:])
	if len(f) < 20 {
		return ""
	}
	return f[19] // field 22: starttime
}

// childrenOf returns the direct children whose environment names recPath as their record file. The
// library's exec returns only after the child has exec'ed, so a spawned child is attributable as soon as
// the spawning call has returned; a child that is already a zombie has no environment left and is
// recognised by its "spawned" record line instead.
func childrenOf(recPath string) map[int]bool {
	out := map[int]bool{}
	for pid := range childPIDs() {
		key := fmt.Sprintf("%d:%s", pid, procStartTime(pid))
		if v, ok := pidOwner.Load(key); ok {
			if v.(string) == recPath {
				out[pid] = true
			}
			continue
		}
		env, err := os.ReadFile(fmt.Sprintf("/proc/%d/environ", pid))
		if err != nil || len(env) == 0 {
			continue
		}
		owner := ""
		for _, kv := range strings.Split(string(env), "\x00") {
			if strings.HasPrefix(kv, "VH_C16_REC=") {
				owner = strings.TrimPrefix(kv, "VH_C16_REC=")
			}
		}
		if owner == "" {
			continue
		}
		pidOwner.Store(key, owner)
		if owner == recPath {
			out[pid] = true
		}
	}
	return out
}

func alive(pid int) bool {
	pp, st, ok := procStat(pid)
	return ok && pp == os.Getpid() && st != 'Z' && st != 'X'
}

func recLines(path string) []string {
	b, err := os.ReadFile(path)
	if err != nil || len(b) == 0 {
		return nil
	}
	s := strings.TrimSuffix(string(b), "\n")
	if s == "" {
		return nil
	}
	return strings.Split(s, "\n")
}

func countPrefix(lines []string, p string) int {
	n := 0
	for _, l := range lines {
		if l == p || strings.HasPrefix(l, p+" ") {
			n++
		}
	}
	return n
}

// runStdioHistory executes one history of a stdio client whose server is the recording child.
func runStdioHistory(h History, dir string) HistObs {
	obs := HistObs{Idx: h.Idx, Client: h.Client, Fixed: h.Fixed}
	recPath := filepath.Join(dir, fmt.Sprintf("h%d.rec", h.Idx))
	modePath := filepath.Join(dir, fmt.Sprintf("h%d.mode", h.Idx))
	os.Remove(recPath)
	defer os.Remove(recPath)
	defer os.Remove(modePath)
	setMode := func(m string, v int) { _ = os.WriteFile(modePath, []byte(fmt.Sprintf("%s %d\n", m, v)), 0o644) }
	setMode(mHealthy, 0)
	lc, err := kit.NewStdioClient("", map[string]string{"VH_CHILD": recChildRole, "VH_C16_REC": recPath, "VH_C16_MODE": modePath}, callWatchdog)
	if err != nil {
		obs.Problem = "client constructor: " + err.Error()
		return obs
	}
	c := lc.Std
	defer c.Close()
	obs.State0 = string(c.GetState())
	known := map[int]bool{}
	syncsSent := 0
	decoderStuck := false // a non-JSON line was served: the client's reader can no longer parse anything
	for i, st := range h.Steps {
		o := StepObs{Step: st, I: i, OK: true}
		tStep := time.Now()
		l0 := len(recLines(recPath))
		switch st.Kind {
		case "init":
			if st.Mode == mFault {
				setMode(stdioFaultMode(st.At, st.Fault), st.Var)
			} else {
				setMode(st.Mode, st.Var)
			}
			d := callWatchdog
			if st.Mode == mMalA || decoderStuck {
				d = hangBound
			}
			ctx, cancel := context.WithTimeout(context.Background(), d)
			_, err := c.Initialize(ctx, &mcp.InitializeRequest{})
			cancel()
			o.OK, o.Err = err == nil, errText(err)
			setMode(mHealthy, 0)
		case "op":
			d := callWatchdog
			if decoderStuck {
				d = hangBound
			}
			ctx, cancel := context.WithTimeout(context.Background(), d)
			err := doOp(ctx, c, st.Op)
			cancel()
			o.OK, o.Err = err == nil, errText(err)
		case "close":
			err := c.Close()
			o.OK, o.Err = err == nil, errText(err)
		case "srvdie":
			// kill the server process(es) of this client and wait until the library has reaped them (the entry
			// leaves /proc); the short pause lets the reaping goroutine finish what it does right after Wait returns
			// (it is not part of any decision)
			killed := 0
			for pid := range childrenOf(recPath) {
				known[pid] = true
				if !alive(pid) {
					continue
				}
				if syscall.Kill(pid, syscall.SIGKILL) != nil {
					continue
				}
				killed++
				dl := time.Now().Add(10 * time.Second)
				for time.Now().Before(dl) {
					if pp, _, ok := procStat(pid); !ok || pp != os.Getpid() {
						break
					}
					time.Sleep(200 * time.Microsecond)
				}
				if pp, _, ok := procStat(pid); ok && pp == os.Getpid() {
					o.Note = strings.TrimSpace(o.Note + fmt.Sprintf(" killed server process %d not reaped within 10s", pid))
				}
			}
			if killed == 0 {
				o.Note = strings.TrimSpace(o.Note + " no live server process")
			} else {
				o.Note = strings.TrimSpace(o.Note + fmt.Sprintf(" killed %d server process(es)", killed))
				time.Sleep(20 * time.Millisecond)
			}
		case "getstate":
		}
		o.State = string(c.GetState())
		// --- wire accounting: processes spawned + stdin lines received by a live child ---
		var newPIDs []int
		for pid := range childrenOf(recPath) {
			if !known[pid] {
				known[pid] = true
				newPIDs = append(newPIDs, pid)
			}
		}
		if st.Kind != "close" {
			for _, pid := range newPIDs {
				// the child installs its signal handler before writing "spawned"; wait for that line (or its death)
				dl := time.Now().Add(10 * time.Second)
				for time.Now().Before(dl) {
					if countPrefix(recLines(recPath), fmt.Sprintf("spawned %d", pid)) > 0 || !alive(pid) {
						break
					}
					time.Sleep(200 * time.Microsecond)
				}
			}
			for pid := range known {
				if !alive(pid) {
					continue
				}
				if countPrefix(recLines(recPath), fmt.Sprintf("spawned %d", pid)) == 0 {
					o.Unsure, o.Note = true, "child alive but never reported start-up"
					continue
				}
				// barrier: the child answers SIGUSR1 with a "sync" line once its stdin is drained
				if syscall.Kill(pid, syscall.SIGUSR1) != nil {
					continue
				}
				syncsSent++
				dl := time.Now().Add(10 * time.Second)
				for time.Now().Before(dl) {
					if countPrefix(recLines(recPath), "sync") >= syncsSent || !alive(pid) {
						break
					}
					time.Sleep(200 * time.Microsecond)
				}
				if countPrefix(recLines(recPath), "sync") < syncsSent {
					if alive(pid) {
						o.Unsure, o.Note = true, "stdin barrier not acknowledged within 10s"
					}
					syncsSent = countPrefix(recLines(recPath), "sync")
				}
			}
		}
		lines := recLines(recPath)
		spawnedLines := 0
		if l0 > len(lines) {
			l0 = len(lines)
		}
		for _, l := range lines[l0:] {
			switch {
			case strings.HasPrefix(l, "spawned "):
				spawnedLines++
			case strings.HasPrefix(l, "rx ") || strings.HasPrefix(l, "rx-partial "):
				o.Touch++
				var hd rpcHead
				_ = json.Unmarshal([]byte(strings.TrimPrefix(strings.TrimPrefix(l, "rx-partial "), "rx ")), &hd)
				o.Wire = append(o.Wire, "STDIN-LINE "+hd.Method)
				if hd.Method == "initialize" && st.Kind == "init" && st.Mode == mMalA {
					decoderStuck = true // the answer to this line was not JSON: the client's decoder cannot recover
				}
			case l == "exit-down":
				o.Wire = append(o.Wire, "CHILD-EXITED")
			case l == "exit-fault" || l == "stdout-closed" || l == "stdin-closed":
				o.Wire = append(o.Wire, "CHILD-FAULT "+l)
				if st.Kind == "init" && st.Mode == mFault {
					o.Fired++
				}
			}
		}
		sp := len(newPIDs)
		if spawnedLines > sp {
			sp = spawnedLines
		}
		for k := 0; k < sp; k++ {
			o.Wire = append([]string{"PROCESS-SPAWNED"}, o.Wire...)
		}
		o.Touch += sp
		o.Ms = time.Since(tStep).Milliseconds()
		obs.Steps = append(obs.Steps, o)
	}
	return obs
}

// histChildMain: read the history file, execute, print one JSON line per event.
func histChildMain() {
	path := os.Getenv("VH_C16_HISTFILE")
	b, err := os.ReadFile(path)
	if err != nil {
		fmt.Fprintf(os.Stderr, "hist child: %v\n", err)
		os.Exit(4)
	}
	var hs []History
	if err := json.Unmarshal(b, &hs); err != nil {
		fmt.Fprintf(os.Stderr, "hist child: %v\n", err)
		os.Exit(4)
	}
	out := bufio.NewWriterSize(os.Stdout, 1<<16)
	var omu sync.Mutex
	emit := func(v interface{}) {
		j, _ := json.Marshal(v)
		omu.Lock()
		out.Write(j)
		out.WriteByte('\n')
		out.Flush()
		omu.Unlock()
	}
	workers := 8
	var dir string
	if len(hs) > 0 && hs[0].Client == ckStdio {
		workers = 6
		dir = os.Getenv("VH_C16_RECDIR")
		_ = os.MkdirAll(dir, 0o755)
	}
	jobs := make(chan History)
	var wg sync.WaitGroup
	for w := 0; w < workers; w++ {
		wg.Add(1)
		go func() {
			defer wg.Done()
			for h := range jobs {
				emit(map[string]interface{}{"begin": h.Idx})
				var o HistObs
				if h.Client == ckStdio {
					o = runStdioHistory(h, dir)
				} else {
					o = runHTTPHistory(h)
				}
				emit(map[string]interface{}{"obs": o})
			}
		}()
	}
	for _, h := range hs {
		jobs <- h
	}
	close(jobs)
	wg.Wait()
	emit(map[string]interface{}{"done": len(hs)})
	os.Exit(0)
}
