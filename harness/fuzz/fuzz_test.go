// Package fuzz holds Go native fuzz targets over the three server entry points (used by the C06 thorough tier).
// Oracles: no panic escapes the handler, every input gets a status / a frame, never an empty 2xx for a POST
// that is not a notification or response.
package fuzz

import (
	"bytes"
	"context"
	"io"
	"math/rand"
	"net/http"
	"net/http/httptest"
	"strings"
	"sync"
	"testing"
	"time"

	mcp "trpc.group/trpc-go/trpc-mcp-go"

	"verifharness/lib/gen"
	"verifharness/lib/kit"
	"verifharness/lib/peer"
)

func seedCorpus(f *testing.F, kind kit.Kind) {
	ids := gen.NewIDGen("fz", 1)
	for _, rq := range gen.Requests(kind, rand.New(rand.NewSource(1)), ids, 0) {
		if len(rq.Body) < 4096 {
			f.Add(rq.Body)
		}
	}
}

var (
	once     sync.Once
	streamIn *kit.Instance
	sessID   string
)

func setupStreamable() {
	kit.Silence()
	streamIn = kit.Start(kit.SJSON, kit.Opts{})
	kit.StdFixture(streamIn)
	rec := httptest.NewRecorder()
	req := httptest.NewRequest("POST", "/mcp", bytes.NewReader(kit.InitBody("1", "")))
	req.Header.Set("Content-Type", "application/json")
	req.Header.Set("Accept", "application/json")
	streamIn.Server.Handler().ServeHTTP(rec, req)
	sessID = rec.Header().Get("Mcp-Session-Id")
}

func FuzzStreamablePost(f *testing.F) {
	seedCorpus(f, kit.SJSON)
	once.Do(setupStreamable)
	f.Fuzz(func(t *testing.T, body []byte) {
		for _, accept := range []string{"application/json", "application/json, text/event-stream"} {
			rec := httptest.NewRecorder()
			req := httptest.NewRequest("POST", "/mcp", bytes.NewReader(body))
			req.Header.Set("Content-Type", "application/json")
			req.Header.Set("Accept", accept)
			req.Header.Set("Mcp-Session-Id", sessID)
			streamIn.Server.Handler().ServeHTTP(rec, req) // a panic here fails the fuzz target
			if rec.Code == 200 && rec.Body.Len() == 0 {
				t.Fatalf("empty 200 for body %q", body)
			}
		}
	})
}

func FuzzStdioLine(f *testing.F) {
	seedCorpus(f, kit.Stdio)
	kit.Silence()
	in := kit.Start(kit.Stdio, kit.Opts{})
	kit.StdFixture(in)
	f.Fuzz(func(t *testing.T, line []byte) {
		line = bytes.ReplaceAll(bytes.ReplaceAll(line, []byte("\n"), []byte(" ")), []byte("\r"), []byte(" "))
		if len(bytes.TrimSpace(line)) == 0 {
			return
		}
		rec := peer.NewRecorder()
		input := append(append([]byte{}, line...), '\n')
		// a well-formed ping after the fuzzed line: the server must still answer it
		input = append(input, []byte(`{"jsonrpc":"2.0","id":"after","method":"ping"}`+"\n")...)
		ctx, cancel := context.WithTimeout(context.Background(), 10*time.Second)
		defer cancel()
		pr, pw := io.Pipe()
		done := make(chan error, 1)
		go func() { done <- mcp.VerifServeStdio(ctx, in.Stdio, pr, rec) }()
		pw.Write(input)
		ok := false
		for i := 0; i < 2000 && !ok; i++ {
			for _, ln := range rec.Lines(0) {
				if strings.Contains(string(ln), `"id":"after"`) {
					ok = true
				}
			}
			if !ok {
				time.Sleep(time.Millisecond)
			}
		}
		pw.Close()
		select {
		case <-done:
		case <-time.After(5 * time.Second):
			t.Fatalf("stdio loop did not end after EOF; line %q", line)
		}
		if !ok {
			t.Fatalf("no answer to the ping that followed line %q; stdout: %q", line, rec.Raw())
		}
	})
}

var (
	onceL    sync.Once
	legacyIn *kit.Instance
	legacyC  *kit.RawConn
)

func FuzzLegacyMessage(f *testing.F) {
	seedCorpus(f, kit.LSSE)
	onceL.Do(func() {
		kit.Silence()
		legacyIn = kit.Start(kit.LSSE, kit.Opts{})
		kit.StdFixture(legacyIn)
		c, err := legacyIn.Dial(context.Background())
		if err != nil {
			panic(err)
		}
		legacyC = c
		c.Handshake(context.Background())
	})
	hp := peer.NewHTTPPeer()
	f.Fuzz(func(t *testing.T, body []byte) {
		re := hp.Do(context.Background(), "POST", legacyC.MsgURL, map[string]string{"Content-Type": "application/json"}, body)
		if re.Status == 0 {
			t.Fatalf("no HTTP answer (%s) for body %q; server log: %s", re.Err, body, legacyIn.ErrLog.String())
		}
		if p := legacyIn.ErrLog.Panics(); len(p) > 0 {
			t.Fatalf("server panicked: %v for body %q", p, body)
		}
		_ = http.StatusOK
	})
}
