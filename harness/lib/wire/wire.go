// Package wire is the independent wire oracle: hand-written validators for JSON-RPC 2.0 envelopes and
// for the MCP (2025-03-26 / 2024-11-05) result shapes of the methods the servers dispatch. It uses no
// type of the library under test.
package wire

import (
	"bytes"
	"encoding/json"
	"fmt"
	"strings"
)

// Msg is a parsed frame.
type Msg struct {
	Kind    string // "response", "error", "notification", "request", "invalid"
	ID      string // canonical raw id ("" when absent)
	IDNull  bool
	Method  string
	Result  json.RawMessage
	Error   *ErrObj
	Raw     map[string]json.RawMessage
	Problem []string
}

// ErrObj is a JSON-RPC error object.
type ErrObj struct {
	Code    int
	Message string
	HasData bool
}

func compact(raw json.RawMessage) string {
	var b bytes.Buffer
	if json.Compact(&b, raw) != nil {
		return string(raw)
	}
	return b.String()
}

// hasDuplicateKeys reports duplicate member names in the top-level object.
func hasDuplicateKeys(data []byte) bool {
	dec := json.NewDecoder(bytes.NewReader(data))
	tok, err := dec.Token()
	if err != nil || tok != json.Delim('{') {
		return false
	}
	seen := map[string]bool{}
	for dec.More() {
		k, err := dec.Token()
		if err != nil {
			return false
		}
		ks, _ := k.(string)
		if seen[ks] {
			return true
		}
		seen[ks] = true
		var skip json.RawMessage
		if dec.Decode(&skip) != nil {
			return false
		}
	}
	return false
}

// Parse validates the JSON-RPC envelope of one frame.
func Parse(frame string) *Msg {
	m := &Msg{Kind: "invalid"}
	data := []byte(strings.TrimSpace(frame))
	if !json.Valid(data) {
		m.Problem = append(m.Problem, "not valid JSON")
		return m
	}
	// exactly one JSON value
	dec := json.NewDecoder(bytes.NewReader(data))
	var first json.RawMessage
	if err := dec.Decode(&first); err != nil {
		m.Problem = append(m.Problem, "not one JSON value")
		return m
	}
	if dec.More() {
		m.Problem = append(m.Problem, "more than one JSON value in the frame")
		return m
	}
	if err := json.Unmarshal(data, &m.Raw); err != nil || m.Raw == nil {
		m.Problem = append(m.Problem, "not a JSON object")
		return m
	}
	if hasDuplicateKeys(data) {
		m.Problem = append(m.Problem, "duplicate member names")
	}
	var ver string
	if v, ok := m.Raw["jsonrpc"]; !ok || json.Unmarshal(v, &ver) != nil || ver != "2.0" {
		m.Problem = append(m.Problem, `member "jsonrpc" is not "2.0"`)
	}
	idRaw, hasID := m.Raw["id"]
	if hasID {
		c := compact(idRaw)
		switch {
		case c == "null":
			m.IDNull = true
		case strings.HasPrefix(c, `"`):
			m.ID = c
		case len(c) > 0 && (c[0] == '-' || (c[0] >= '0' && c[0] <= '9')):
			m.ID = c
		default:
			// an id of another JSON type can only be the echo of a request that carried it; whether the
			// echo is right is judged against the request, not here
			m.ID = c
		}
	}
	methRaw, hasMethod := m.Raw["method"]
	if hasMethod {
		if json.Unmarshal(methRaw, &m.Method) != nil {
			m.Problem = append(m.Problem, "method is not a string")
		}
	}
	res, hasRes := m.Raw["result"]
	errRaw, hasErr := m.Raw["error"]
	switch {
	case hasMethod && hasID && !m.IDNull:
		m.Kind = "request"
		if hasRes || hasErr {
			m.Problem = append(m.Problem, "request carries result/error")
		}
		if p, ok := m.Raw["params"]; ok {
			c := compact(p)
			if !strings.HasPrefix(c, "{") && !strings.HasPrefix(c, "[") {
				m.Problem = append(m.Problem, "params is not structured")
			}
		}
	case hasMethod:
		m.Kind = "notification"
		if hasID {
			m.Problem = append(m.Problem, "notification carries an id member")
		}
		if hasRes || hasErr {
			m.Problem = append(m.Problem, "notification carries result/error")
		}
		if p, ok := m.Raw["params"]; ok {
			c := compact(p)
			if !strings.HasPrefix(c, "{") && !strings.HasPrefix(c, "[") {
				m.Problem = append(m.Problem, "params is not structured")
			}
		}
	case hasRes || hasErr:
		if hasRes && hasErr {
			m.Problem = append(m.Problem, "both result and error present")
		}
		if hasErr {
			m.Kind = "error"
			var e struct {
				Code    *json.Number    `json:"code"`
				Message *string         `json:"message"`
				Data    json.RawMessage `json:"data"`
			}
			d := json.NewDecoder(bytes.NewReader(errRaw))
			d.UseNumber()
			if err := d.Decode(&e); err != nil || e.Code == nil || e.Message == nil {
				m.Problem = append(m.Problem, "error object lacks integer code / string message")
			} else {
				n, err := e.Code.Int64()
				if err != nil {
					m.Problem = append(m.Problem, "error code is not an integer")
				}
				m.Error = &ErrObj{Code: int(n), Message: *e.Message, HasData: e.Data != nil}
			}
		} else {
			m.Kind = "response"
			m.Result = res
		}
		if !hasID {
			// an error raised before an id could be read may omit the id or use null; a result must have one
			if !hasErr {
				m.Problem = append(m.Problem, "response without id")
			}
		}
	default:
		m.Problem = append(m.Problem, "neither request, notification nor response")
	}
	return m
}

type obj = map[string]json.RawMessage

func asObj(raw json.RawMessage) (obj, bool) {
	var o obj
	if json.Unmarshal(raw, &o) != nil || o == nil {
		return nil, false
	}
	return o, true
}

func isString(raw json.RawMessage) bool {
	var s string
	return raw != nil && json.Unmarshal(raw, &s) == nil && strings.HasPrefix(strings.TrimSpace(string(raw)), `"`)
}

func isBool(raw json.RawMessage) bool {
	c := compact(raw)
	return c == "true" || c == "false"
}

func asArr(raw json.RawMessage) ([]json.RawMessage, bool) {
	if raw == nil || !strings.HasPrefix(compact(raw), "[") {
		return nil, false
	}
	var a []json.RawMessage
	if json.Unmarshal(raw, &a) != nil {
		return nil, false
	}
	return a, true
}

func reqString(o obj, k string, where string, p *[]string) {
	if v, ok := o[k]; !ok || !isString(v) {
		*p = append(*p, fmt.Sprintf("%s: member %q missing or not a string", where, k))
	}
}

func optString(o obj, k string, where string, p *[]string) {
	if v, ok := o[k]; ok && !isString(v) {
		*p = append(*p, fmt.Sprintf("%s: member %q not a string", where, k))
	}
}

func checkResourceContents(raw json.RawMessage, where string, p *[]string) {
	o, ok := asObj(raw)
	if !ok {
		*p = append(*p, where+": resource contents is not an object")
		return
	}
	reqString(o, "uri", where, p)
	optString(o, "mimeType", where, p)
	_, hasText := o["text"]
	_, hasBlob := o["blob"]
	if hasText == hasBlob {
		*p = append(*p, where+": resource contents needs exactly one of text / blob")
	}
	if hasText {
		reqString(o, "text", where, p)
	}
	if hasBlob {
		reqString(o, "blob", where, p)
	}
}

func checkContent(raw json.RawMessage, where string, p *[]string) {
	o, ok := asObj(raw)
	if !ok {
		*p = append(*p, where+": content item is not an object")
		return
	}
	var typ string
	if v, ok := o["type"]; !ok || json.Unmarshal(v, &typ) != nil {
		*p = append(*p, where+": content item without string type")
		return
	}
	switch typ {
	case "text":
		reqString(o, "text", where, p)
	case "image", "audio":
		reqString(o, "data", where, p)
		reqString(o, "mimeType", where, p)
	case "resource":
		r, ok := o["resource"]
		if !ok {
			*p = append(*p, where+": embedded resource without resource member")
			return
		}
		checkResourceContents(r, where+".resource", p)
	default:
		*p = append(*p, fmt.Sprintf("%s: content type %q is not one of text|image|audio|resource", where, typ))
	}
}

// CheckResult validates the result of a response to `method`.
func CheckResult(method string, result json.RawMessage) []string {
	var p []string
	o, ok := asObj(result)
	if !ok {
		return []string{"result is not an object"}
	}
	switch method {
	case "initialize":
		reqString(o, "protocolVersion", "InitializeResult", &p)
		if c, ok := o["capabilities"]; !ok {
			p = append(p, "InitializeResult: capabilities missing")
		} else if _, ok := asObj(c); !ok {
			p = append(p, "InitializeResult: capabilities not an object")
		}
		if si, ok := o["serverInfo"]; !ok {
			p = append(p, "InitializeResult: serverInfo missing")
		} else if so, ok := asObj(si); !ok {
			p = append(p, "InitializeResult: serverInfo not an object")
		} else {
			reqString(so, "name", "serverInfo", &p)
			reqString(so, "version", "serverInfo", &p)
		}
		optString(o, "instructions", "InitializeResult", &p)
	case "ping":
		// empty result: any object
	case "tools/list":
		arr, ok := asArr(o["tools"])
		if !ok {
			p = append(p, "ListToolsResult: tools is not an array")
			break
		}
		for i, t := range arr {
			w := fmt.Sprintf("tools[%d]", i)
			to, ok := asObj(t)
			if !ok {
				p = append(p, w+": not an object")
				continue
			}
			reqString(to, "name", w, &p)
			optString(to, "description", w, &p)
			is, ok := asObj(to["inputSchema"])
			if !ok {
				p = append(p, w+": inputSchema missing or not an object")
				continue
			}
			var ty string
			if v, ok := is["type"]; !ok || json.Unmarshal(v, &ty) != nil || ty != "object" {
				p = append(p, w+`: inputSchema.type is not "object"`)
			}
		}
		optString(o, "nextCursor", "ListToolsResult", &p)
	case "tools/call":
		arr, ok := asArr(o["content"])
		if !ok {
			p = append(p, "CallToolResult: content is not an array")
		} else {
			for i, c := range arr {
				checkContent(c, fmt.Sprintf("content[%d]", i), &p)
			}
		}
		if v, ok := o["isError"]; ok && !isBool(v) {
			p = append(p, "CallToolResult: isError not a boolean")
		}
	case "prompts/list":
		arr, ok := asArr(o["prompts"])
		if !ok {
			p = append(p, "ListPromptsResult: prompts is not an array")
			break
		}
		for i, t := range arr {
			w := fmt.Sprintf("prompts[%d]", i)
			po, ok := asObj(t)
			if !ok {
				p = append(p, w+": not an object")
				continue
			}
			reqString(po, "name", w, &p)
			optString(po, "description", w, &p)
			if a, ok := po["arguments"]; ok {
				args, ok := asArr(a)
				if !ok {
					p = append(p, w+": arguments not an array")
				}
				for j, ar := range args {
					ao, ok := asObj(ar)
					if !ok {
						p = append(p, fmt.Sprintf("%s.arguments[%d]: not an object", w, j))
						continue
					}
					reqString(ao, "name", fmt.Sprintf("%s.arguments[%d]", w, j), &p)
				}
			}
		}
	case "prompts/get":
		optString(o, "description", "GetPromptResult", &p)
		arr, ok := asArr(o["messages"])
		if !ok {
			p = append(p, "GetPromptResult: messages is not an array")
			break
		}
		for i, m := range arr {
			w := fmt.Sprintf("messages[%d]", i)
			mo, ok := asObj(m)
			if !ok {
				p = append(p, w+": not an object")
				continue
			}
			var role string
			if v, ok := mo["role"]; !ok || json.Unmarshal(v, &role) != nil || (role != "user" && role != "assistant") {
				p = append(p, w+": role is not user|assistant")
			}
			if c, ok := mo["content"]; !ok {
				p = append(p, w+": content missing")
			} else {
				checkContent(c, w+".content", &p)
			}
		}
	case "resources/list":
		arr, ok := asArr(o["resources"])
		if !ok {
			p = append(p, "ListResourcesResult: resources is not an array")
			break
		}
		for i, t := range arr {
			w := fmt.Sprintf("resources[%d]", i)
			ro, ok := asObj(t)
			if !ok {
				p = append(p, w+": not an object")
				continue
			}
			reqString(ro, "uri", w, &p)
			reqString(ro, "name", w, &p)
			optString(ro, "mimeType", w, &p)
			optString(ro, "description", w, &p)
		}
	case "resources/read":
		arr, ok := asArr(o["contents"])
		if !ok {
			p = append(p, "ReadResourceResult: contents is not an array")
			break
		}
		for i, c := range arr {
			checkResourceContents(c, fmt.Sprintf("contents[%d]", i), &p)
		}
	case "resources/templates/list":
		if _, ok := asArr(o["resourceTemplates"]); !ok {
			p = append(p, "ListResourceTemplatesResult: resourceTemplates is not an array")
		}
	default:
		// other methods: any object
	}
	return p
}
