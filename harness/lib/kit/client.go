package kit

import (
	"bufio"
	"encoding/json"
	"fmt"
	"os"
	"sync"
	"sync/atomic"
	"time"

	mcp "trpc.group/trpc-go/trpc-mcp-go"
)

// Fixtures maps a fixture name to the function that registers its tools / prompts / resources.
// A stdio server child looks its fixture up by name (VH_FIXTURE).
var Fixtures = map[string]func(in *Instance){}

// MaybeServeStdioChild turns this process into a real stdio MCP server when it was started in the
// "stdio-server" role: the library's own StdioServer.Start on os.Stdin/os.Stdout.
func MaybeServeStdioChild() {
	if os.Getenv("VH_CHILD") != "stdio-server" {
		return
	}
	Silence()
	if p := os.Getenv("VH_EVLOG"); p != "" {
		Events.SinkTo(p)
	}
	in := Start(Stdio, Opts{Name: os.Getenv("VH_SRVNAME"), Version: os.Getenv("VH_SRVVER")})
	name := os.Getenv("VH_FIXTURE")
	if fx, ok := Fixtures[name]; ok {
		fx(in)
	} else if name != "" {
		fmt.Fprintf(os.Stderr, "unknown fixture %q\n", name)
		os.Exit(2)
	}
	if err := in.Stdio.Start(); err != nil {
		fmt.Fprintf(os.Stderr, "stdio server: %v\n", err)
		os.Exit(1)
	}
	os.Exit(0)
}

// LibClient is a library client of any of the three kinds.
type LibClient struct {
	mcp.Connector
	HTTP *mcp.Client      // Streamable or legacy SSE client
	Std  *mcp.StdioClient // stdio client
	Kind Kind
}

// Raw returns the concrete client as interface{} (for the verif hooks).
func (c *LibClient) Raw() interface{} {
	if c.Std != nil {
		return c.Std
	}
	return c.HTTP
}

// ClientInfo is the implementation info the harness clients announce.
var ClientInfo = mcp.Implementation{Name: "verif-client", Version: "1.0"}

// NewClient creates a library client for an HTTP instance (Streamable or legacy SSE).
func (in *Instance) NewClient(opts ...mcp.ClientOption) (*LibClient, error) {
	all := append([]mcp.ClientOption{mcp.WithClientLogger(Quiet{})}, opts...)
	switch in.Kind {
	case LSSE:
		c, err := mcp.NewSSEClient(in.URL(), ClientInfo, all...)
		if err != nil {
			return nil, err
		}
		return &LibClient{Connector: c, HTTP: c, Kind: in.Kind}, nil
	case Stdio:
		return nil, fmt.Errorf("use NewStdioClient for stdio")
	default:
		c, err := mcp.NewClient(in.URL(), ClientInfo, all...)
		if err != nil {
			return nil, err
		}
		return &LibClient{Connector: c, HTTP: c, Kind: in.Kind}, nil
	}
}

// NewStdioClient creates a stdio library client whose server is this binary re-executed in the
// "stdio-server" role with the named fixture. env adds environment entries for the child.
func NewStdioClient(fixture string, env map[string]string, timeout time.Duration) (*LibClient, error) {
	self, err := os.Executable()
	if err != nil {
		return nil, err
	}
	e := map[string]string{"VH_CHILD": "stdio-server", "VH_FIXTURE": fixture}
	for k, v := range env {
		e[k] = v
	}
	if timeout == 0 {
		timeout = 30 * time.Second
	}
	c, err := mcp.NewStdioClient(mcp.StdioTransportConfig{
		ServerParams: mcp.StdioServerParameters{Command: self, Env: e},
		Timeout:      timeout,
	}, ClientInfo, mcp.WithStdioLogger(Quiet{}))
	if err != nil {
		return nil, err
	}
	return &LibClient{Connector: c, Std: c, Kind: Stdio}, nil
}

// Ev is one harness-side event (handler invocation, notification received, ...).
type Ev struct {
	LC    uint64          `json:"lc"`
	K     string          `json:"k"`
	Nonce string          `json:"nonce,omitempty"`
	Val   json.RawMessage `json:"val,omitempty"`
}

// EvLog is a thread-safe event log with a global logical clock; optionally mirrored to an NDJSON file.
type EvLog struct {
	mu   sync.Mutex
	evs  []Ev
	sink *bufio.Writer
	f    *os.File
}

var lclock atomic.Uint64

// Tick returns the next logical-clock value.
func Tick() uint64 { return lclock.Add(1) }

// Events is the process-wide log.
var Events = &EvLog{}

// SinkTo mirrors every event to the given file (flushed per event; used by child processes).
func (l *EvLog) SinkTo(path string) {
	f, err := os.OpenFile(path, os.O_CREATE|os.O_WRONLY|os.O_APPEND, 0o644)
	if err != nil {
		return
	}
	l.mu.Lock()
	l.f = f
	l.sink = bufio.NewWriter(f)
	l.mu.Unlock()
}

// Add records an event.
func (l *EvLog) Add(k, nonce string, val interface{}) uint64 {
	var raw json.RawMessage
	if val != nil {
		raw, _ = json.Marshal(val)
	}
	l.mu.Lock()
	lc := Tick()
	e := Ev{LC: lc, K: k, Nonce: nonce, Val: raw}
	l.evs = append(l.evs, e)
	if l.sink != nil {
		b, _ := json.Marshal(e)
		l.sink.Write(b)
		l.sink.WriteByte('\n')
		l.sink.Flush()
	}
	l.mu.Unlock()
	return lc
}

// Snapshot returns a copy of the events.
func (l *EvLog) Snapshot() []Ev {
	l.mu.Lock()
	defer l.mu.Unlock()
	return append([]Ev{}, l.evs...)
}

// Reset clears the in-memory log.
func (l *EvLog) Reset() {
	l.mu.Lock()
	l.evs = nil
	l.mu.Unlock()
}

// LoadEvFile reads an NDJSON event file written by a child.
func LoadEvFile(path string) []Ev {
	f, err := os.Open(path)
	if err != nil {
		return nil
	}
	defer f.Close()
	var out []Ev
	sc := bufio.NewScanner(f)
	sc.Buffer(make([]byte, 1<<20), 64<<20)
	for sc.Scan() {
		var e Ev
		if json.Unmarshal(sc.Bytes(), &e) == nil {
			out = append(out, e)
		}
	}
	return out
}
