package kit

import (
	"bytes"
	"context"
	"encoding/json"
	"fmt"
	"io"
	"net/url"
	"strings"
	"sync"
	"sync/atomic"
	"time"

	"verifharness/lib/peer"
)

// Frame is one message received asynchronously (legacy SSE stream, stdio stdout, GET stream).
type Frame struct {
	Idx   int    `json:"idx"`
	Event string `json:"event,omitempty"`
	Data  string `json:"data"`
	SSEID string `json:"sse_id,omitempty"`
}

// FrameLog is a thread-safe append-only list of frames with waiters.
type FrameLog struct {
	mu     sync.Mutex
	cond   *sync.Cond
	frames []Frame
	closed bool
}

// NewFrameLog creates an empty log.
func NewFrameLog() *FrameLog {
	l := &FrameLog{}
	l.cond = sync.NewCond(&l.mu)
	return l
}

// Add appends a frame.
func (l *FrameLog) Add(event, data, sseID string) {
	l.mu.Lock()
	l.frames = append(l.frames, Frame{Idx: len(l.frames), Event: event, Data: data, SSEID: sseID})
	l.cond.Broadcast()
	l.mu.Unlock()
}

// CloseLog marks the end of the stream.
func (l *FrameLog) CloseLog() {
	l.mu.Lock()
	l.closed = true
	l.cond.Broadcast()
	l.mu.Unlock()
}

// Closed reports whether the stream has ended.
func (l *FrameLog) Closed() bool {
	l.mu.Lock()
	defer l.mu.Unlock()
	return l.closed
}

// Len returns the number of frames so far.
func (l *FrameLog) Len() int {
	l.mu.Lock()
	defer l.mu.Unlock()
	return len(l.frames)
}

// Since returns a copy of the frames from index i on.
func (l *FrameLog) Since(i int) []Frame {
	l.mu.Lock()
	defer l.mu.Unlock()
	if i > len(l.frames) {
		i = len(l.frames)
	}
	return append([]Frame{}, l.frames[i:]...)
}

// WaitFor waits (up to d) for a frame at index >= from satisfying pred and returns it.
func (l *FrameLog) WaitFor(from int, d time.Duration, pred func(Frame) bool) (Frame, bool) {
	deadline := time.Now().Add(d)
	timer := time.AfterFunc(d, func() {
		l.mu.Lock()
		l.cond.Broadcast()
		l.mu.Unlock()
	})
	defer timer.Stop()
	l.mu.Lock()
	defer l.mu.Unlock()
	i := from
	for {
		for ; i < len(l.frames); i++ {
			if pred(l.frames[i]) {
				return l.frames[i], true
			}
		}
		if l.closed || !time.Now().Before(deadline) {
			return Frame{}, false
		}
		l.cond.Wait()
	}
}

// CanonID renders a raw JSON id canonically (compact JSON) for comparison: "1" stays distinct from 1.
func CanonID(raw json.RawMessage) string {
	var buf bytes.Buffer
	if err := json.Compact(&buf, raw); err != nil {
		return string(raw)
	}
	return buf.String()
}

// FrameID extracts the raw id of a JSON-RPC frame ("" when absent or not an object) and whether it has a method.
func FrameID(data string) (id string, hasID bool, hasMethod bool) {
	var m map[string]json.RawMessage
	if err := json.Unmarshal([]byte(data), &m); err != nil {
		return "", false, false
	}
	_, hasMethod = m["method"]
	raw, ok := m["id"]
	if !ok {
		return "", false, hasMethod
	}
	return CanonID(raw), true, hasMethod
}

// RawConn is a library-free peer session against an Instance.
type RawConn struct {
	In        *Instance
	HP        *peer.HTTPPeer
	SessionID string // Streamable stateful: Mcp-Session-Id after initialize
	Headers   map[string]string
	Log       *FrameLog // async frames: legacy stream / stdio stdout / GET stream

	// legacy SSE
	stream *peer.Stream
	MsgURL string

	// stdio
	stdin  *io.PipeWriter
	Rec    *peer.Recorder
	cancel context.CancelFunc
	wmu    sync.Mutex
	served chan error

	// Streamable GET stream (optional)
	Get *peer.Stream

	fence atomic.Int64
}

// Dial opens a raw session: legacy SSE opens the event stream and waits for the endpoint event; stdio
// starts the real transport loop over in-memory pipes; Streamable does nothing yet.
func (in *Instance) Dial(ctx context.Context) (*RawConn, error) {
	c := &RawConn{In: in, Log: NewFrameLog(), Headers: map[string]string{}}
	switch in.Kind {
	case Stdio:
		pr, pw := io.Pipe()
		c.stdin = pw
		c.Rec = peer.NewRecorder()
		sctx, cancel := context.WithCancel(context.Background())
		c.cancel = cancel
		c.served = make(chan error, 1)
		go func() { c.served <- in.ServeStdio(sctx, pr, c.Rec) }()
		go func() {
			i := 0
			for {
				ln, ok := c.Rec.Line(i, time.Hour)
				if !ok {
					select {
					case <-sctx.Done():
						c.Log.CloseLog()
						return
					default:
						continue
					}
				}
				c.Log.Add("", string(ln), "")
				i++
			}
		}()
		return c, nil
	case LSSE:
		c.HP = peer.NewHTTPPeer()
		s, re := c.HP.OpenStream(ctx, "GET", in.URL(), map[string]string{"Accept": "text/event-stream"}, 8192)
		if s == nil {
			return nil, fmt.Errorf("legacy SSE connect: status=%d err=%s", re.Status, re.Err)
		}
		c.stream = s
		select {
		case ev, ok := <-s.Events:
			if !ok || ev.Event != "endpoint" {
				s.Close()
				return nil, fmt.Errorf("legacy SSE: first event is %q (%q), want endpoint", ev.Event, ev.Data)
			}
			u, err := url.Parse(ev.Data)
			if err != nil {
				s.Close()
				return nil, err
			}
			base, _ := url.Parse(in.BaseURL())
			c.MsgURL = base.ResolveReference(u).String()
			c.SessionID = u.Query().Get("sessionId")
		case <-time.After(10 * time.Second):
			s.Close()
			return nil, fmt.Errorf("legacy SSE: no endpoint event within 10s")
		}
		go func() {
			for ev := range s.Events {
				c.Log.Add(ev.Event, ev.Data, ev.ID)
			}
			c.Log.CloseLog()
		}()
		return c, nil
	default:
		c.HP = peer.NewHTTPPeer()
		return c, nil
	}
}

// Close ends the session from the peer's side.
func (c *RawConn) Close() {
	if c.Get != nil {
		c.Get.Close()
	}
	if c.stream != nil {
		c.stream.Close()
	}
	if c.stdin != nil {
		c.stdin.Close()
		select {
		case <-c.served:
		case <-time.After(3 * time.Second):
		}
		c.cancel()
		c.Rec.Close()
	}
	if c.HP != nil {
		c.HP.Close()
	}
}

// Exchange is what came back for one posted message.
type Exchange struct {
	HTTP     *peer.Reaction `json:"http,omitempty"`
	Frames   []string       `json:"frames,omitempty"`
	TimedOut bool           `json:"timed_out,omitempty"`
	Extra    []Frame        `json:"extra,omitempty"`
}

// PostOpts tunes Post.
type PostOpts struct {
	Accept      string            // Streamable: Accept header ("" = chosen by configuration)
	Headers     map[string]string // extra / overriding headers ("\x00del" deletes)
	WantID      string            // canonical raw JSON id whose answer to wait for on async transports ("" = use a fence)
	NoWait      bool              // async transports: do not wait for anything
	Wait        time.Duration     // maximum wait for the answer (default 10 s)
	NoSessionID bool              // do not send the session header
	ContentType string
	URL         string // override URL
	Method      string
}

func (c *RawConn) accept(o PostOpts) string {
	if o.Accept != "" {
		return o.Accept
	}
	switch c.In.Kind {
	case SSSE, SLSSE:
		return "application/json, text/event-stream"
	default:
		return "application/json"
	}
}

// WriteLine writes one raw line (terminator included by the caller or not) to a stdio server.
func (c *RawConn) WriteLine(b []byte) error {
	c.wmu.Lock()
	defer c.wmu.Unlock()
	if !bytes.HasSuffix(b, []byte("\n")) {
		b = append(append([]byte{}, b...), '\n')
	}
	_, err := c.stdin.Write(b)
	return err
}

// Post sends one raw message and collects the server's reaction.
func (c *RawConn) Post(ctx context.Context, body []byte, o PostOpts) *Exchange {
	if o.Wait == 0 {
		o.Wait = 10 * time.Second
	}
	ex := &Exchange{}
	switch c.In.Kind {
	case Stdio:
		from := c.Log.Len()
		if err := c.WriteLine(body); err != nil {
			ex.HTTP = &peer.Reaction{Err: err.Error()}
			return ex
		}
		c.awaitAsync(ex, from, o)
		return ex
	case LSSE:
		from := c.Log.Len()
		u := c.MsgURL
		if o.URL != "" {
			u = o.URL
		}
		hdr := map[string]string{"Content-Type": "application/json"}
		if o.ContentType != "" {
			hdr["Content-Type"] = o.ContentType
		}
		for k, v := range c.Headers {
			hdr[k] = v
		}
		for k, v := range o.Headers {
			hdr[k] = v
		}
		m := "POST"
		if o.Method != "" {
			m = o.Method
		}
		ex.HTTP = c.HP.Do(ctx, m, u, hdr, body)
		if ex.HTTP.Status != 202 {
			// answered synchronously (error status / error body)
			ex.Frames = ex.HTTP.Frames()
			return ex
		}
		if fr := ex.HTTP.Frames(); len(fr) > 0 { // 202 with a body (error written after the status)
			ex.Frames = fr
			return ex
		}
		c.awaitAsync(ex, from, o)
		return ex
	default:
		hdr := map[string]string{"Content-Type": "application/json", "Accept": c.accept(o)}
		if o.ContentType != "" {
			hdr["Content-Type"] = o.ContentType
		}
		if c.SessionID != "" && !o.NoSessionID {
			hdr["Mcp-Session-Id"] = c.SessionID
		}
		for k, v := range c.Headers {
			hdr[k] = v
		}
		for k, v := range o.Headers {
			hdr[k] = v
		}
		u := c.In.URL()
		if o.URL != "" {
			u = o.URL
		}
		m := "POST"
		if o.Method != "" {
			m = o.Method
		}
		ex.HTTP = c.HP.Do(ctx, m, u, hdr, body)
		ex.Frames = ex.HTTP.Frames()
		return ex
	}
}

func (c *RawConn) awaitAsync(ex *Exchange, from int, o PostOpts) {
	if o.NoWait {
		return
	}
	if o.WantID != "" {
		f, ok := c.Log.WaitFor(from, o.Wait, func(f Frame) bool {
			id, has, hasMethod := FrameID(f.Data)
			return has && !hasMethod && id == o.WantID
		})
		if !ok {
			ex.TimedOut = true
			return
		}
		ex.Frames = []string{f.Data}
		return
	}
	// Fence: a ping with a unique id sent after the input; everything that arrived before the fence's
	// answer (plus a short grace) and is not the fence's answer is attributed to the input.
	fid := fmt.Sprintf("\"fence-%d\"", c.fence.Add(1))
	ping := []byte(`{"jsonrpc":"2.0","id":` + fid + `,"method":"ping"}`)
	switch c.In.Kind {
	case Stdio:
		_ = c.WriteLine(ping)
	case LSSE:
		c.HP.Do(context.Background(), "POST", c.MsgURL, map[string]string{"Content-Type": "application/json"}, ping)
	}
	_, ok := c.Log.WaitFor(from, o.Wait, func(f Frame) bool {
		id, has, hasMethod := FrameID(f.Data)
		return has && !hasMethod && id == fid
	})
	if !ok {
		ex.TimedOut = true
	}
	time.Sleep(30 * time.Millisecond)
	for _, f := range c.Log.Since(from) {
		id, has, hasMethod := FrameID(f.Data)
		if has && !hasMethod && id == fid {
			continue
		}
		ex.Frames = append(ex.Frames, f.Data)
	}
}

// InitBody is a well-formed initialize request with the given raw id.
func InitBody(rawID string, version string) []byte {
	if version == "" {
		version = "2025-03-26"
	}
	return []byte(`{"jsonrpc":"2.0","id":` + rawID + `,"method":"initialize","params":{"protocolVersion":"` + version +
		`","clientInfo":{"name":"rawpeer","version":"1"},"capabilities":{}}}`)
}

// InitializedBody is the notifications/initialized message.
const InitializedBody = `{"jsonrpc":"2.0","method":"notifications/initialized"}`

// Handshake performs initialize + notifications/initialized and stores the session id.
func (c *RawConn) Handshake(ctx context.Context) error {
	ex := c.Post(ctx, InitBody(`"init-0"`, ""), PostOpts{WantID: `"init-0"`, NoSessionID: true})
	if len(ex.Frames) == 0 {
		st := 0
		if ex.HTTP != nil {
			st = ex.HTTP.Status
		}
		return fmt.Errorf("initialize: no answer (status %d, timed out %v)", st, ex.TimedOut)
	}
	if !strings.Contains(ex.Frames[len(ex.Frames)-1], `"result"`) {
		return fmt.Errorf("initialize: %s", ex.Frames[len(ex.Frames)-1])
	}
	if c.In.Kind.IsStreamable() && ex.HTTP != nil && ex.HTTP.Sess != "" {
		c.SessionID = ex.HTTP.Sess
	}
	c.Post(ctx, []byte(InitializedBody), PostOpts{NoWait: true})
	return nil
}

// OpenGet opens the Streamable listening stream of this session and feeds its events into Log.
func (c *RawConn) OpenGet(ctx context.Context) (*peer.Reaction, error) {
	hdr := map[string]string{"Accept": "text/event-stream"}
	if c.SessionID != "" {
		hdr["Mcp-Session-Id"] = c.SessionID
	}
	for k, v := range c.Headers {
		hdr[k] = v
	}
	s, re := c.HP.OpenStream(ctx, "GET", c.In.URL(), hdr, 8192)
	if s == nil {
		return re, fmt.Errorf("GET stream refused: status=%d err=%s", re.Status, re.Err)
	}
	c.Get = s
	lg := c.Log
	go func() {
		for ev := range s.Events {
			lg.Add(ev.Event, ev.Data, ev.ID)
		}
		lg.CloseLog()
	}()
	return re, nil
}

// PauseLegacy stops reading the legacy SSE stream (slow reader); ResumeLegacy continues.
func (c *RawConn) PauseLegacy() {
	if c.stream != nil {
		c.stream.Pause()
	}
}

// ResumeLegacy resumes reading the legacy SSE stream.
func (c *RawConn) ResumeLegacy() {
	if c.stream != nil {
		c.stream.Resume()
	}
}

// LegacyComments returns the number of SSE comment lines seen on the legacy stream so far.
func (c *RawConn) LegacyComments() int {
	if c.stream == nil {
		return 0
	}
	return c.stream.CommentsSoFar()
}
