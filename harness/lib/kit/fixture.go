package kit

import (
	"context"
	"crypto/sha256"
	"encoding/hex"
	"encoding/json"
	"errors"
	"fmt"
	"math"
	"strings"
	"sync"
	"sync/atomic"
	"time"

	mcp "trpc.group/trpc-go/trpc-mcp-go"
)

// Digest is the hex SHA-256 of s.
func Digest(s string) string {
	h := sha256.Sum256([]byte(s))
	return hex.EncodeToString(h[:])
}

// EchoAnswer is the JSON the echo tool returns as its text content.
type EchoAnswer struct {
	Nonce   string `json:"nonce"`
	Digest  string `json:"digest"`
	Len     int    `json:"len"`
	Session string `json:"session"`
	Pad     string `json:"pad,omitempty"`
}

// InFlight / MaxInFlight measure how many echo handlers run at the same time in this process.
var (
	InFlight    atomic.Int64
	MaxInFlight atomic.Int64
)

func noteEnter() {
	n := InFlight.Add(1)
	for {
		m := MaxInFlight.Load()
		if n <= m || MaxInFlight.CompareAndSwap(m, n) {
			return
		}
	}
}

// Gates lets in-process handlers block until the harness releases them (barrier release).
type Gates struct {
	mu      sync.Mutex
	gates   map[string]chan struct{}
	waiting map[string]int
	cond    *sync.Cond
}

// G is the process-wide gate set.
var G = newGates()

func newGates() *Gates {
	g := &Gates{gates: map[string]chan struct{}{}, waiting: map[string]int{}}
	g.cond = sync.NewCond(&g.mu)
	return g
}

func (g *Gates) ch(name string) chan struct{} {
	c, ok := g.gates[name]
	if !ok {
		c = make(chan struct{})
		g.gates[name] = c
	}
	return c
}

// Wait blocks until Open(name) (or ctx ends / 20 s safety).
func (g *Gates) Wait(ctx context.Context, name string) {
	g.mu.Lock()
	c := g.ch(name)
	g.waiting[name]++
	g.cond.Broadcast()
	g.mu.Unlock()
	select {
	case <-c:
	case <-ctx.Done():
	case <-time.After(20 * time.Second):
	}
	g.mu.Lock()
	g.waiting[name]--
	g.mu.Unlock()
}

// AwaitWaiters blocks until n handlers wait on the gate (or d elapsed) and returns the number waiting.
func (g *Gates) AwaitWaiters(name string, n int, d time.Duration) int {
	t := time.AfterFunc(d, func() { g.mu.Lock(); g.cond.Broadcast(); g.mu.Unlock() })
	defer t.Stop()
	deadline := time.Now().Add(d)
	g.mu.Lock()
	defer g.mu.Unlock()
	for g.waiting[name] < n && time.Now().Before(deadline) {
		g.cond.Wait()
	}
	return g.waiting[name]
}

// Open releases everyone waiting on the gate, now and later.
func (g *Gates) Open(name string) {
	g.mu.Lock()
	c := g.ch(name)
	select {
	case <-c:
	default:
		close(c)
	}
	g.mu.Unlock()
}

func argString(m map[string]interface{}, k string) string {
	s, _ := m[k].(string)
	return s
}

// sessionIDOf returns the id of the session the handler runs in ("" when none).
func sessionIDOf(ctx context.Context) string {
	if s, ok := mcp.GetSessionFromContext(ctx); ok && s != nil {
		return s.GetID()
	}
	if s := mcp.ClientSessionFromContext(ctx); s != nil {
		return s.GetID()
	}
	return ""
}

func init() { Fixtures["std"] = StdFixture }

// StdFixture registers the standard tool / prompt / resource set used by several properties.
func StdFixture(in *Instance) {
	in.RegisterTool(mcp.NewTool("echo", mcp.WithDescription("echo nonce and digest of payload"),
		mcp.WithString("nonce", mcp.Required()), mcp.WithString("payload")), func(ctx context.Context, req *mcp.CallToolRequest) (*mcp.CallToolResult, error) {
		a := req.Params.Arguments
		nonce := argString(a, "nonce")
		Events.Add("invoke", nonce, nil)
		noteEnter()
		defer InFlight.Add(-1)
		if d, ok := a["delay_us"].(float64); ok && d > 0 {
			time.Sleep(time.Duration(d) * time.Microsecond)
		}
		if gname := argString(a, "gate"); gname != "" {
			G.Wait(ctx, gname)
		}
		p := argString(a, "payload")
		ans := EchoAnswer{Nonce: nonce, Digest: Digest(p), Len: len(p), Session: sessionIDOf(ctx)}
		if n, ok := a["pad_n"].(float64); ok && n > 0 {
			ans.Pad = strings.Repeat("p", int(n))
		}
		b, _ := json.Marshal(ans)
		return mcp.NewTextResult(string(b)), nil
	})
	in.RegisterTool(mcp.NewTool("fail", mcp.WithString("nonce")), func(ctx context.Context, req *mcp.CallToolRequest) (*mcp.CallToolResult, error) {
		return nil, errors.New("boom:" + argString(req.Params.Arguments, "nonce"))
	})
	in.RegisterTool(mcp.NewTool("iserr", mcp.WithString("nonce")), func(ctx context.Context, req *mcp.CallToolRequest) (*mcp.CallToolResult, error) {
		return mcp.NewErrorResult("iserr:" + argString(req.Params.Arguments, "nonce")), nil
	})
	in.RegisterTool(mcp.NewTool("nan", mcp.WithString("nonce")), func(ctx context.Context, req *mcp.CallToolRequest) (*mcp.CallToolResult, error) {
		return &mcp.CallToolResult{Content: []mcp.Content{mcp.NewTextContent("x")}, StructuredContent: map[string]interface{}{"v": math.NaN()}}, nil
	})
	in.RegisterTool(mcp.NewTool("chan", mcp.WithString("nonce")), func(ctx context.Context, req *mcp.CallToolRequest) (*mcp.CallToolResult, error) {
		return &mcp.CallToolResult{Content: []mcp.Content{mcp.NewTextContent("x")}, StructuredContent: map[string]interface{}{"v": make(chan int)}}, nil
	})
	in.RegisterTool(mcp.NewTool("nilcontent", mcp.WithString("nonce")), func(ctx context.Context, req *mcp.CallToolRequest) (*mcp.CallToolResult, error) {
		return &mcp.CallToolResult{}, nil
	})
	in.RegisterTool(mcp.NewTool("notify", mcp.WithString("nonce"), mcp.WithNumber("n")), func(ctx context.Context, req *mcp.CallToolRequest) (*mcp.CallToolResult, error) {
		nonce := argString(req.Params.Arguments, "nonce")
		n, _ := req.Params.Arguments["n"].(float64)
		sent := 0
		if sender, ok := mcp.GetNotificationSender(ctx); ok {
			for i := 0; i < int(n); i++ {
				var err error
				switch i % 3 {
				case 0:
					err = sender.SendProgress(float64(i)/float64(n), fmt.Sprintf("%s#%d", nonce, i))
				case 1:
					err = sender.SendLogMessage("info", fmt.Sprintf("%s#%d", nonce, i))
				default:
					err = sender.SendCustomNotification("notifications/verif", map[string]interface{}{"nonce": nonce, "seq": i, "_meta": map[string]interface{}{"k": "v"}})
				}
				if err == nil {
					sent++
				}
			}
		}
		return mcp.NewTextResult(fmt.Sprintf("%s sent=%d", nonce, sent)), nil
	})
	in.RegisterPrompt(&mcp.Prompt{Name: "p-ok", Description: "ok prompt", Arguments: []mcp.PromptArgument{{Name: "who", Required: true}}},
		func(ctx context.Context, req *mcp.GetPromptRequest) (*mcp.GetPromptResult, error) {
			return &mcp.GetPromptResult{Description: "d:" + req.Params.Arguments["who"], Messages: []mcp.PromptMessage{
				{Role: mcp.RoleUser, Content: mcp.NewTextContent("hello " + req.Params.Arguments["who"])},
				{Role: mcp.RoleAssistant, Content: mcp.NewTextContent("ack")},
			}}, nil
		})
	in.RegisterPrompt(&mcp.Prompt{Name: "p-fail"}, func(ctx context.Context, req *mcp.GetPromptRequest) (*mcp.GetPromptResult, error) {
		return nil, errors.New("prompt-boom")
	})
	in.RegisterResource(&mcp.Resource{URI: "res://ok", Name: "ok", MimeType: "text/plain"}, func(ctx context.Context, req *mcp.ReadResourceRequest) (mcp.ResourceContents, error) {
		return mcp.TextResourceContents{URI: "res://ok", MIMEType: "text/plain", Text: "resource text"}, nil
	})
	in.RegisterResource(&mcp.Resource{URI: "res://blob", Name: "blob", MimeType: "application/octet-stream"}, func(ctx context.Context, req *mcp.ReadResourceRequest) (mcp.ResourceContents, error) {
		return mcp.BlobResourceContents{URI: "res://blob", MIMEType: "application/octet-stream", Blob: "AAEC"}, nil
	})
	in.RegisterResource(&mcp.Resource{URI: "res://fail", Name: "fail"}, func(ctx context.Context, req *mcp.ReadResourceRequest) (mcp.ResourceContents, error) {
		return nil, errors.New("resource-boom")
	})
	in.RegisterResources(&mcp.Resource{URI: "res://multi", Name: "multi"}, func(ctx context.Context, req *mcp.ReadResourceRequest) ([]mcp.ResourceContents, error) {
		return []mcp.ResourceContents{
			mcp.TextResourceContents{URI: "res://multi#1", MIMEType: "text/plain", Text: "one"},
			mcp.BlobResourceContents{URI: "res://multi#2", MIMEType: "application/octet-stream", Blob: "AQID"},
		}, nil
	})
}

// EchoCallBody renders a raw tools/call of the echo tool.
func EchoCallBody(rawID, nonce, payload string, extra map[string]interface{}) []byte {
	args := map[string]interface{}{"nonce": nonce, "payload": payload}
	for k, v := range extra {
		args[k] = v
	}
	a, _ := json.Marshal(args)
	return []byte(fmt.Sprintf(`{"jsonrpc":"2.0","id":%s,"method":"tools/call","params":{"name":"echo","arguments":%s}}`, rawID, a))
}
