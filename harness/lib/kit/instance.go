// Package kit starts servers of the library under test in each of the seven configurations and
// gives raw (library-free) and library-client access to them.
package kit

import (
	"bytes"
	"context"
	"io"
	"log"
	"net/http"
	"net/http/httptest"
	"strings"
	"sync"
	"time"

	mcp "trpc.group/trpc-go/trpc-mcp-go"
)

// Kind names a server configuration.
type Kind string

// The seven configurations.
const (
	SJSON   Kind = "S-json"      // stateful Streamable, JSON answers (POST SSE disabled)
	SSSE    Kind = "S-sse"       // stateful Streamable, SSE answers
	SLJSON  Kind = "SL-json"     // stateless, JSON answers
	SLSSE   Kind = "SL-sse"      // stateless, SSE answers
	SNoSess Kind = "S-nosession" // sessions disabled
	LSSE    Kind = "L-sse"       // legacy SSE server
	Stdio   Kind = "stdio"       // stdio server over in-memory streams
)

// AllKinds lists every configuration; HTTPKinds the Streamable ones.
var (
	AllKinds        = []Kind{SJSON, SSSE, SLJSON, SLSSE, SNoSess, LSSE, Stdio}
	StreamableKinds = []Kind{SJSON, SSSE, SLJSON, SLSSE, SNoSess}
)

// IsStreamable reports whether k is a Streamable HTTP configuration.
func (k Kind) IsStreamable() bool { return k != LSSE && k != Stdio }

// Stateful reports whether the configuration issues session ids.
func (k Kind) Stateful() bool { return k == SJSON || k == SSSE }

// ToolFn / PromptFn / ResourceFn / ResourcesFn are the handler shapes (assignable to the library's unexported types).
type (
	ToolFn      = func(ctx context.Context, req *mcp.CallToolRequest) (*mcp.CallToolResult, error)
	PromptFn    = func(ctx context.Context, req *mcp.GetPromptRequest) (*mcp.GetPromptResult, error)
	ResourceFn  = func(ctx context.Context, req *mcp.ReadResourceRequest) (mcp.ResourceContents, error)
	ResourcesFn = func(ctx context.Context, req *mcp.ReadResourceRequest) ([]mcp.ResourceContents, error)
)

// Opts configures Start.
type Opts struct {
	Name, Version string
	ServerOpts    []mcp.ServerOption
	SSEOpts       []mcp.SSEOption
	StdioOpts     []mcp.StdioServerOption
	KeepAlive     time.Duration // legacy SSE keep-alive interval (0 = library default 30 s)
	Path          string        // Streamable path (default /mcp)
}

// LogCapture collects what net/http writes to Server.ErrorLog ("http: panic serving ...").
type LogCapture struct {
	mu  sync.Mutex
	buf bytes.Buffer
}

func (l *LogCapture) Write(p []byte) (int, error) {
	l.mu.Lock()
	defer l.mu.Unlock()
	if l.buf.Len() < 1<<20 {
		l.buf.Write(p)
	}
	return len(p), nil
}

// String returns the captured text.
func (l *LogCapture) String() string {
	l.mu.Lock()
	defer l.mu.Unlock()
	return l.buf.String()
}

// Panics returns the captured lines mentioning a panic.
func (l *LogCapture) Panics() []string {
	var out []string
	for _, ln := range strings.Split(l.String(), "\n") {
		if strings.Contains(ln, "panic") {
			out = append(out, ln)
		}
	}
	return out
}

// Instance is one running server.
type Instance struct {
	Kind   Kind
	Server *mcp.Server
	SSE    *mcp.SSEServer
	Stdio  *mcp.StdioServer
	TS     *httptest.Server
	ErrLog *LogCapture
	Path   string
	opts   Opts
}

// Quiet is a no-op logger for the library.
type Quiet struct{}

func (Quiet) Debug(args ...interface{})                 {}
func (Quiet) Debugf(format string, args ...interface{}) {}
func (Quiet) Info(args ...interface{})                  {}
func (Quiet) Infof(format string, args ...interface{})  {}
func (Quiet) Warn(args ...interface{})                  {}
func (Quiet) Warnf(format string, args ...interface{})  {}
func (Quiet) Error(args ...interface{})                 {}
func (Quiet) Errorf(format string, args ...interface{}) {}
func (Quiet) Fatal(args ...interface{})                 {}
func (Quiet) Fatalf(format string, args ...interface{}) {}

// Silence installs the no-op logger as the library default (zap to stderr slows hot loops).
func Silence() { mcp.SetDefaultLogger(Quiet{}) }

// Start creates and starts a server of the given kind. Nothing is registered yet.
func Start(kind Kind, o Opts) *Instance {
	if o.Name == "" {
		o.Name = "verif-server"
	}
	if o.Version == "" {
		o.Version = "9.9.9"
	}
	if o.Path == "" {
		o.Path = "/mcp"
	}
	in := &Instance{Kind: kind, ErrLog: &LogCapture{}, opts: o, Path: o.Path}
	switch kind {
	case SJSON, SSSE, SLJSON, SLSSE, SNoSess:
		so := []mcp.ServerOption{mcp.WithServerLogger(Quiet{}), mcp.WithServerPath(o.Path)}
		switch kind {
		case SJSON:
			so = append(so, mcp.WithPostSSEEnabled(false))
		case SSSE:
			so = append(so, mcp.WithPostSSEEnabled(true))
		case SLJSON:
			so = append(so, mcp.WithStatelessMode(true), mcp.WithPostSSEEnabled(false))
		case SLSSE:
			so = append(so, mcp.WithStatelessMode(true), mcp.WithPostSSEEnabled(true))
		case SNoSess:
			so = append(so, mcp.WithoutSession(), mcp.WithPostSSEEnabled(false))
		}
		so = append(so, o.ServerOpts...)
		in.Server = mcp.NewServer(o.Name, o.Version, so...)
		in.TS = httptest.NewUnstartedServer(in.Server.Handler())
	case LSSE:
		so := []mcp.SSEOption{mcp.WithSSEServerLogger(Quiet{})}
		if o.KeepAlive > 0 {
			so = append(so, mcp.WithKeepAliveInterval(o.KeepAlive))
		}
		so = append(so, o.SSEOpts...)
		in.SSE = mcp.NewSSEServer(o.Name, o.Version, so...)
		in.TS = httptest.NewUnstartedServer(in.SSE)
		in.Path = "/sse"
	case Stdio:
		so := []mcp.StdioServerOption{mcp.WithStdioServerLogger(Quiet{})}
		so = append(so, o.StdioOpts...)
		in.Stdio = mcp.NewStdioServer(o.Name, o.Version, so...)
	}
	if in.TS != nil {
		in.TS.Config.ErrorLog = log.New(in.ErrLog, "", 0)
		in.TS.Start()
	}
	return in
}

// URL is the endpoint a client connects to (Streamable: the MCP path; legacy: the /sse path).
func (in *Instance) URL() string {
	if in.TS == nil {
		return ""
	}
	return in.TS.URL + in.Path
}

// BaseURL is scheme://host:port.
func (in *Instance) BaseURL() string {
	if in.TS == nil {
		return ""
	}
	return in.TS.URL
}

// Srv returns the server object as interface{}.
func (in *Instance) Srv() interface{} {
	switch {
	case in.Server != nil:
		return in.Server
	case in.SSE != nil:
		return in.SSE
	default:
		return in.Stdio
	}
}

// Close stops the HTTP listener; open connections are cut first (httptest.Close would otherwise
// wait for open event streams forever).
func (in *Instance) Close() {
	if in.TS != nil {
		in.TS.CloseClientConnections()
		done := make(chan struct{})
		go func() { in.TS.Close(); close(done) }()
		select {
		case <-done:
		case <-time.After(5 * time.Second):
		}
	}
}

// RegisterTool registers on whichever server kind this is.
func (in *Instance) RegisterTool(t *mcp.Tool, h ToolFn) {
	switch {
	case in.Server != nil:
		in.Server.RegisterTool(t, h)
	case in.SSE != nil:
		in.SSE.RegisterTool(t, h)
	case in.Stdio != nil:
		in.Stdio.RegisterTool(t, h)
	}
}

// UnregisterTools removes tools.
func (in *Instance) UnregisterTools(names ...string) error {
	switch {
	case in.Server != nil:
		return in.Server.UnregisterTools(names...)
	case in.SSE != nil:
		return in.SSE.UnregisterTools(names...)
	default:
		return in.Stdio.UnregisterTools(names...)
	}
}

// RegisterPrompt registers a prompt.
func (in *Instance) RegisterPrompt(p *mcp.Prompt, h PromptFn) {
	switch {
	case in.Server != nil:
		in.Server.RegisterPrompt(p, h)
	case in.SSE != nil:
		in.SSE.RegisterPrompt(p, h)
	case in.Stdio != nil:
		in.Stdio.RegisterPrompt(p, h)
	}
}

// RegisterResource registers a single-content resource.
func (in *Instance) RegisterResource(r *mcp.Resource, h ResourceFn) {
	switch {
	case in.Server != nil:
		in.Server.RegisterResource(r, h)
	case in.SSE != nil:
		in.SSE.RegisterResource(r, h)
	case in.Stdio != nil:
		in.Stdio.RegisterResource(r, h)
	}
}

// RegisterResources registers a multi-content resource.
func (in *Instance) RegisterResources(r *mcp.Resource, h ResourcesFn) {
	switch {
	case in.Server != nil:
		in.Server.RegisterResources(r, h)
	case in.SSE != nil:
		in.SSE.RegisterResources(r, h)
	case in.Stdio != nil:
		in.Stdio.RegisterResources(r, h)
	}
}

// ServeStdio runs the real stdio transport loop over the given streams until ctx ends or in hits EOF.
func (in *Instance) ServeStdio(ctx context.Context, r io.Reader, w io.Writer) error {
	return mcp.VerifServeStdio(ctx, in.Stdio, r, w)
}

var _ http.Handler = (*mcp.SSEServer)(nil)
