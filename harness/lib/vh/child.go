package vh

import (
	"bytes"
	"context"
	"fmt"
	"os"
	"os/exec"
	"path/filepath"
	"regexp"
	"strings"
	"syscall"
	"time"
)

// ChildEnv is the environment variable that names the child role; an empty value means parent.
const ChildEnv = "VH_CHILD"

// ChildRole returns the role this process was started in ("" for the parent).
func ChildRole() string { return os.Getenv(ChildEnv) }

// ChildResult is what the parent observed of one child process.
type ChildResult struct {
	ExitCode   int
	Signal     string
	TimedOut   bool
	StdoutPath string
	StderrPath string
	Wall       time.Duration
}

// Stderr returns the child's stderr (bounded).
func (c *ChildResult) Stderr() string {
	b, _ := os.ReadFile(c.StderrPath)
	if len(b) > 1<<20 {
		b = b[len(b)-(1<<20):]
	}
	return string(b)
}

// Stdout returns the child's stdout.
func (c *ChildResult) Stdout() []byte {
	b, _ := os.ReadFile(c.StdoutPath)
	return b
}

var fatalRe = regexp.MustCompile(`(?m)^(panic: .*|fatal error: .*|runtime: .*out of memory.*|.*http: panic serving.*|unexpected fault address.*)$`)

// CrashLine extracts the first panic / fatal-error line of a stderr dump, or "".
func CrashLine(stderr string) string {
	m := fatalRe.FindString(stderr)
	return strings.TrimSpace(m)
}

// FirstLibFrame returns the first stack frame of the dump that is inside the library under test.
func FirstLibFrame(stderr string) string {
	for _, l := range strings.Split(stderr, "\n") {
		if strings.HasPrefix(l, "trpc.group/trpc-go/trpc-mcp-go") {
			if i := strings.LastIndex(l, "("); i > 0 {
				l = l[:i]
			}
			return strings.TrimPrefix(l, "trpc.group/trpc-go/trpc-mcp-go")
		}
	}
	return ""
}

// SpawnChild re-executes this binary in role `role` with extra args and env; stdout/stderr go to files
// under the run's out directory (a pipe would lose the goroutine dump of a killed child).
// On timeout the child gets SIGQUIT (goroutine dump) and then SIGKILL.
func (r *Run) SpawnChild(role, tag string, args []string, env []string, stdin []byte, timeout time.Duration) *ChildResult {
	self, err := os.Executable()
	if err != nil {
		r.Fatal("os.Executable: %v", err)
	}
	return r.SpawnChildBin(self, role, tag, args, env, stdin, timeout)
}

// SpawnChildBin is SpawnChild with an explicit binary (e.g. the race-detector flavour of this check).
func (r *Run) SpawnChildBin(self, role, tag string, args []string, env []string, stdin []byte, timeout time.Duration) *ChildResult {
	var err error
	dir := filepath.Join(r.OutDir, "child")
	_ = os.MkdirAll(dir, 0o755)
	outPath := filepath.Join(dir, tag+".stdout")
	errPath := filepath.Join(dir, tag+".stderr")
	outF, _ := os.Create(outPath)
	errF, _ := os.Create(errPath)
	defer outF.Close()
	defer errF.Close()
	ctx, cancel := context.WithCancel(context.Background())
	defer cancel()
	cmd := exec.CommandContext(ctx, self, args...)
	cmd.Env = append(os.Environ(), ChildEnv+"="+role, "GOTRACEBACK=all")
	cmd.Env = append(cmd.Env, env...)
	cmd.Stdout = outF
	cmd.Stderr = errF
	if stdin != nil {
		cmd.Stdin = bytes.NewReader(stdin)
	}
	start := time.Now()
	if err := cmd.Start(); err != nil {
		r.Fatal("start child %s: %v", role, err)
	}
	done := make(chan error, 1)
	go func() { done <- cmd.Wait() }()
	res := &ChildResult{StdoutPath: outPath, StderrPath: errPath}
	select {
	case err = <-done:
	case <-time.After(timeout):
		res.TimedOut = true
		_ = cmd.Process.Signal(syscall.SIGQUIT)
		select {
		case err = <-done:
		case <-time.After(5 * time.Second):
			_ = cmd.Process.Kill()
			err = <-done
		}
	}
	res.Wall = time.Since(start)
	if err != nil {
		if ee, ok := err.(*exec.ExitError); ok {
			res.ExitCode = ee.ExitCode()
			if ws, ok := ee.Sys().(syscall.WaitStatus); ok && ws.Signaled() {
				res.Signal = ws.Signal().String()
			}
		} else {
			res.ExitCode = -1
		}
	}
	return res
}

// Describe summarises a child outcome for messages.
func (c *ChildResult) Describe() string {
	return fmt.Sprintf("exit=%d signal=%q timed_out=%v wall=%s", c.ExitCode, c.Signal, c.TimedOut, c.Wall.Round(time.Millisecond))
}
