package vh

import (
	"bufio"
	"bytes"
	"encoding/json"
	"os"
	"sync"
)

// Reporter is used inside a child process: it writes what the child observed as NDJSON on stdout so that
// the parent can merge it into its Run. Every line is flushed at once (a crash must not lose the log).
type Reporter struct {
	mu sync.Mutex
	w  *bufio.Writer
}

type repLine struct {
	T   string      `json:"t"`
	K   string      `json:"k,omitempty"`
	N   int64       `json:"n,omitempty"`
	Sig string      `json:"sig,omitempty"`
	S   string      `json:"s,omitempty"`
	V   interface{} `json:"v,omitempty"`
}

// NewReporter creates a reporter on stdout.
func NewReporter() *Reporter { return &Reporter{w: bufio.NewWriterSize(os.Stdout, 1<<16)} }

func (p *Reporter) emit(l repLine) {
	b, err := json.Marshal(l)
	if err != nil {
		l.V = nil
		b, _ = json.Marshal(l)
	}
	p.mu.Lock()
	p.w.Write(b)
	p.w.WriteByte('\n')
	p.w.Flush()
	p.mu.Unlock()
}

// Eval, Distinct, Sample, Count, Max, SetAdd, Violation, Inconclusive, Note mirror the Run methods.
func (p *Reporter) Eval(n int)                        { p.emit(repLine{T: "eval", N: int64(n)}) }
func (p *Reporter) Distinct(k string)                 { p.emit(repLine{T: "distinct", K: k}) }
func (p *Reporter) Sample(v interface{})              { p.emit(repLine{T: "sample", V: v}) }
func (p *Reporter) Count(k string, n int64)           { p.emit(repLine{T: "count", K: k, N: n}) }
func (p *Reporter) Max(k string, n int64)             { p.emit(repLine{T: "max", K: k, N: n}) }
func (p *Reporter) SetAdd(k, e string)                { p.emit(repLine{T: "set", K: k, S: e}) }
func (p *Reporter) Inconclusive(s string)             { p.emit(repLine{T: "inconclusive", S: s}) }
func (p *Reporter) Note(s string)                     { p.emit(repLine{T: "note", S: s}) }
func (p *Reporter) Violation(sig, what string, w interface{}) {
	p.emit(repLine{T: "viol", Sig: sig, S: what, V: w})
}

// Progress logs the input about to be tried (the last one before a crash is the culprit).
func (p *Reporter) Progress(s string) { p.emit(repLine{T: "progress", S: s}) }

// Done marks an orderly end of the child.
func (p *Reporter) Done() { p.emit(repLine{T: "done"}) }

// ChildReport is the merged view of a child's NDJSON report.
type ChildReport struct {
	Done         bool
	LastProgress string
	Lines        int
}

// Merge folds a child's stdout report into the run.
func (r *Run) Merge(stdout []byte) ChildReport {
	var cr ChildReport
	sc := bufio.NewScanner(bytes.NewReader(stdout))
	sc.Buffer(make([]byte, 1<<20), 256<<20)
	for sc.Scan() {
		var l repLine
		if json.Unmarshal(sc.Bytes(), &l) != nil {
			continue
		}
		cr.Lines++
		switch l.T {
		case "eval":
			r.Eval(int(l.N))
		case "distinct":
			r.Distinct(l.K)
		case "sample":
			r.Sample(l.V)
		case "count":
			r.Count(l.K, l.N)
		case "max":
			r.Max(l.K, l.N)
		case "set":
			r.SetAdd(l.K, l.S)
		case "inconclusive":
			r.Inconclusive(l.S)
		case "note":
			r.Note(l.S)
		case "viol":
			r.Violation(l.Sig, l.S, l.V)
		case "progress":
			cr.LastProgress = l.S
		case "done":
			cr.Done = true
		}
	}
	return cr
}

// ExportAndExit is used by a child process that accumulated its observations in a Run of its own: it
// writes them as a report on stdout (for the parent's Merge) and exits 0.
func (r *Run) ExportAndExit() {
	p := NewReporter()
	r.mu.Lock()
	p.Eval(int(r.evaluations))
	for k := range r.distinct {
		p.Distinct(k)
	}
	for _, s := range r.samples {
		p.Sample(s)
	}
	for k, v := range r.counters {
		if k != "inconclusive" {
			p.Count(k, v)
		}
	}
	for k, v := range r.maxima {
		p.Max(k, v)
	}
	for k, s := range r.sets {
		for e := range s {
			p.SetAdd(k, e)
		}
	}
	for _, s := range r.inconclusive {
		p.Inconclusive(s)
	}
	for _, s := range r.notes {
		p.Note(s)
	}
	for _, v := range r.violations {
		p.Violation(v.Signature, v.What, v.Witness)
	}
	r.mu.Unlock()
	p.Done()
	os.Exit(0)
}

// NewChildRun creates a Run inside a child process (same seed / tier as the parent, passed by environment).
func NewChildRun(prop string) *Run {
	r := NewRun(prop, "")
	return r
}

// ChildEnvFor returns the environment entries that make a child's NewChildRun agree with this run.
func (r *Run) ChildEnvFor() []string {
	return []string{"VERIF_SEED=" + itoa64(r.Seed), "VERIF_TIER=" + r.Tier}
}

func itoa64(n int64) string {
	b, _ := json.Marshal(n)
	return string(b)
}
