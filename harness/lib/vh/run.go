// Package vh holds the bookkeeping shared by every property check: flags, seeded PRNG,
// violation recording with known-finding matching, coverage counters and the evidence file.
package vh

import (
	"encoding/json"
	"flag"
	"fmt"
	"math/rand"
	"os"
	"path/filepath"
	"regexp"
	"sort"
	"strconv"
	"strings"
	"sync"
	"time"
)

// VerifDir is the root of the verification tree.
var VerifDir = func() string {
	if d := os.Getenv("VERIF_DIR"); d != "" {
		return d
	}
	return "/verif"
}()

// Violation is one refuted oracle with its witness.
type Violation struct {
	Property  string      `json:"property"`
	Signature string      `json:"signature"`
	What      string      `json:"what"`
	Witness   interface{} `json:"witness,omitempty"`
	Seed      int64       `json:"seed"`
	Tier      string      `json:"tier"`
	Known     string      `json:"known_finding,omitempty"`
}

type knownFinding struct {
	Property  string `json:"property"`
	Signature string `json:"signature"`
	Status    string `json:"status"`
	Commit    string `json:"commit,omitempty"`
	What      string `json:"what"`
}

// Run is the state of one check invocation.
type Run struct {
	Prop   string
	Tier   string
	Seed   int64
	Replay string
	OutDir string
	Level  string
	start  time.Time

	mu           sync.Mutex
	violations   []Violation
	vioSigs      map[string]int
	knownHit     map[string]int
	evaluations  int64
	distinct     map[string]struct{}
	samples      []interface{}
	maxSamples   int
	counters     map[string]int64
	maxima       map[string]int64
	sets         map[string]map[string]struct{}
	inconclusive []string
	notes        []string
	known        []knownFinding
}

// NewRun parses the common flags (--tier, --seed, --replay) and the VERIF_SEED / VERIF_TIER environment.
func NewRun(prop string, level string) *Run {
	fs := flag.NewFlagSet(prop, flag.ExitOnError)
	tier := fs.String("tier", envOr("VERIF_TIER", "quick"), "quick|thorough")
	seedDefault := int64(1)
	if s := os.Getenv("VERIF_SEED"); s != "" {
		if v, err := strconv.ParseInt(s, 10, 64); err == nil {
			seedDefault = v
		}
	}
	seed := fs.Int64("seed", seedDefault, "PRNG seed")
	replay := fs.String("replay", "", "replay file")
	_ = fs.Parse(os.Args[1:])
	if *tier != "quick" && *tier != "thorough" {
		*tier = "quick"
	}
	r := &Run{
		Prop: prop, Tier: *tier, Seed: *seed, Replay: *replay, Level: level,
		OutDir:     filepath.Join(VerifDir, "out", prop),
		start:      time.Now(),
		vioSigs:    map[string]int{},
		knownHit:   map[string]int{},
		distinct:   map[string]struct{}{},
		counters:   map[string]int64{},
		maxima:     map[string]int64{},
		sets:       map[string]map[string]struct{}{},
		maxSamples: 6,
	}
	_ = os.MkdirAll(filepath.Join(r.OutDir, "violations"), 0o755)
	r.loadKnown()
	return r
}

func envOr(k, d string) string {
	if v := os.Getenv(k); v != "" {
		return v
	}
	return d
}

func (r *Run) loadKnown() {
	b, err := os.ReadFile(filepath.Join(VerifDir, "known_findings.json"))
	if err != nil {
		return
	}
	var f struct {
		Findings []knownFinding `json:"findings"`
	}
	if json.Unmarshal(b, &f) == nil {
		r.known = f.Findings
	}
}

// Quick reports whether this is the quick tier.
func (r *Run) Quick() bool { return r.Tier == "quick" }

// Pick returns q in the quick tier and t in the thorough tier.
func (r *Run) Pick(q, t int) int {
	if r.Quick() {
		return q
	}
	return t
}

// Rand returns a PRNG derived from the run seed and a stream label.
func (r *Run) Rand(label string) *rand.Rand {
	h := uint64(1469598103934665603)
	for _, c := range []byte(label) {
		h ^= uint64(c)
		h *= 1099511628211
	}
	return rand.New(rand.NewSource(r.Seed*1000003 + int64(h&0x7fffffffffff)))
}

func globMatch(pat, s string) bool {
	if !strings.Contains(pat, "*") {
		return pat == s
	}
	re := "^" + strings.ReplaceAll(regexp.QuoteMeta(pat), `\*`, ".*") + "$"
	ok, _ := regexp.MatchString(re, s)
	return ok
}

// Violation records a refuted oracle. sig identifies the failing input class / call site; a
// signature matching an open entry of known_findings.json is reported as KNOWN-FINDING.
func (r *Run) Violation(sig, what string, witness interface{}) {
	r.mu.Lock()
	defer r.mu.Unlock()
	r.vioSigs[sig]++
	if r.vioSigs[sig] > 3 { // keep at most three witnesses per signature
		return
	}
	v := Violation{Property: r.Prop, Signature: sig, What: what, Witness: witness, Seed: r.Seed, Tier: r.Tier}
	for _, k := range r.known {
		if k.Property == r.Prop && k.Status == "open" && globMatch(k.Signature, sig) {
			v.Known = k.Signature
			r.knownHit[k.Signature]++
			break
		}
	}
	r.violations = append(r.violations, v)
}

// Eval counts executed cases.
func (r *Run) Eval(n int) {
	r.mu.Lock()
	r.evaluations += int64(n)
	r.mu.Unlock()
}

// Distinct records a distinct non-trivial case signature.
func (r *Run) Distinct(key string) {
	r.mu.Lock()
	r.distinct[key] = struct{}{}
	r.mu.Unlock()
}

// Sample keeps a few of the actual cases for the evidence file.
func (r *Run) Sample(v interface{}) {
	r.mu.Lock()
	if len(r.samples) < r.maxSamples {
		r.samples = append(r.samples, v)
	}
	r.mu.Unlock()
}

// Count adds to a named monitor counter.
func (r *Run) Count(name string, n int64) {
	r.mu.Lock()
	r.counters[name] += n
	r.mu.Unlock()
}

// Max keeps the maximum of a named gauge.
func (r *Run) Max(name string, v int64) {
	r.mu.Lock()
	if v > r.maxima[name] {
		r.maxima[name] = v
	}
	r.mu.Unlock()
}

// SetAdd adds an element to a named set whose cardinality is reported.
func (r *Run) SetAdd(name, elem string) {
	r.mu.Lock()
	s := r.sets[name]
	if s == nil {
		s = map[string]struct{}{}
		r.sets[name] = s
	}
	s[elem] = struct{}{}
	r.mu.Unlock()
}

// Counter reads a counter.
func (r *Run) Counter(name string) int64 {
	r.mu.Lock()
	defer r.mu.Unlock()
	return r.counters[name]
}

// Inconclusive records an execution that could not be judged.
func (r *Run) Inconclusive(what string) {
	r.mu.Lock()
	if len(r.inconclusive) < 50 {
		r.inconclusive = append(r.inconclusive, what)
	}
	r.counters["inconclusive"]++
	r.mu.Unlock()
}

// Note adds free text to the evidence.
func (r *Run) Note(s string) {
	r.mu.Lock()
	r.notes = append(r.notes, s)
	r.mu.Unlock()
}

// Fatal aborts the run as a harness error (exit 3, no VIOLATION line).
func (r *Run) Fatal(format string, a ...interface{}) {
	fmt.Printf("HARNESS-ERROR property=%s %s\n", r.Prop, fmt.Sprintf(format, a...))
	os.Exit(3)
}

// Require fails the run as vacuous (harness error) when a non-vacuity threshold is not met.
func (r *Run) Require(cond bool, format string, a ...interface{}) {
	if !cond {
		r.mu.Lock()
		r.notes = append(r.notes, "VACUOUS: "+fmt.Sprintf(format, a...))
		r.mu.Unlock()
	}
}

// Finish writes the evidence file, prints the verdict lines and exits.
func (r *Run) Finish(rule string, assumptions []string) {
	r.mu.Lock()
	defer r.mu.Unlock()
	wall := time.Since(r.start).Seconds()

	newV := 0
	knownPrinted := map[string]bool{}
	for i, v := range r.violations {
		if v.Known != "" {
			if !knownPrinted[v.Known] {
				knownPrinted[v.Known] = true
				what := v.What
				for _, k := range r.known {
					if k.Signature == v.Known && k.Property == r.Prop {
						what = k.What
					}
				}
				fmt.Printf("KNOWN-FINDING: property=%s signature=%q %s\n", r.Prop, v.Known, what)
			}
			continue
		}
		newV++
		path := filepath.Join(r.OutDir, "violations", fmt.Sprintf("%s-seed%d-%d.json", r.Tier, r.Seed, i))
		b, _ := json.MarshalIndent(v, "", " ")
		_ = os.WriteFile(path, b, 0o644)
		fmt.Printf("VIOLATION property=%s replay=%s\n", r.Prop, path)
		fmt.Printf("  signature=%q %s\n", v.Signature, v.What)
	}

	cov := map[string]interface{}{
		"evaluations":         r.evaluations,
		"distinct_nontrivial": len(r.distinct),
		"rule":                rule,
		"samples":             r.samples,
	}
	mon := map[string]interface{}{}
	for k, v := range r.counters {
		mon[k] = v
	}
	for k, v := range r.maxima {
		mon["max_"+k] = v
	}
	for k, s := range r.sets {
		mon["distinct_"+k] = len(s)
		if len(s) <= 40 {
			el := make([]string, 0, len(s))
			for e := range s {
				el = append(el, e)
			}
			sort.Strings(el)
			mon["set_"+k] = el
		}
	}
	cov["monitors"] = mon
	if len(r.inconclusive) > 0 {
		cov["inconclusive_cases"] = r.inconclusive
	}
	if len(r.notes) > 0 {
		cov["notes"] = r.notes
	}
	sigCount := map[string]int{}
	for s, n := range r.vioSigs {
		sigCount[s] = n
	}
	if len(sigCount) > 0 {
		cov["violation_signatures"] = sigCount
	}
	if len(r.knownHit) > 0 {
		cov["known_findings_observed"] = r.knownHit
	}
	ev := map[string]interface{}{
		"property_id": r.Prop,
		"tier":        r.Tier,
		"seed":        r.Seed,
		"level":       r.Level,
		"coverage":    cov,
		"assumptions": assumptions,
		"wall_s":      wall,
		"violations":  newV,
	}
	b, _ := json.MarshalIndent(ev, "", " ")
	_ = os.MkdirAll(filepath.Join(VerifDir, "evidence"), 0o755)
	if err := os.WriteFile(filepath.Join(VerifDir, "evidence", r.Prop+".json"), b, 0o644); err != nil {
		fmt.Printf("HARNESS-ERROR property=%s cannot write evidence: %v\n", r.Prop, err)
		os.Exit(3)
	}
	for _, s := range r.inconclusive {
		if len(s) > 300 {
			s = s[:300]
		}
		fmt.Printf("INCONCLUSIVE: property=%s %s\n", r.Prop, s)
	}
	vac := false
	for _, n := range r.notes {
		if strings.HasPrefix(n, "VACUOUS: ") {
			vac = true
			fmt.Printf("HARNESS-ERROR property=%s %s\n", r.Prop, n)
		}
	}
	fmt.Printf("SUMMARY property=%s tier=%s seed=%d evaluations=%d distinct=%d violations=%d known=%d inconclusive=%d wall=%.1fs\n",
		r.Prop, r.Tier, r.Seed, r.evaluations, len(r.distinct), newV, len(knownPrinted), len(r.inconclusive), wall)
	if newV > 0 {
		os.Exit(1)
	}
	if vac || r.evaluations == 0 || len(r.distinct) < 2 {
		if !vac {
			fmt.Printf("HARNESS-ERROR property=%s vacuous run (evaluations=%d distinct=%d)\n", r.Prop, r.evaluations, len(r.distinct))
		}
		os.Exit(3)
	}
	os.Exit(0)
}
