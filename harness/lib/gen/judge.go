package gen

import (
	"fmt"
	"strings"

	"verifharness/lib/kit"
	"verifharness/lib/wire"
)

// Outcome is the observed answer class of one exchange.
type Outcome struct {
	Status   int         `json:"status"`
	Class    string      `json:"class"` // result | error | http-refuse | empty-2xx | accepted-202 | silence | malformed
	Code     int         `json:"code,omitempty"`
	Message  string      `json:"message,omitempty"`
	AnswerID string      `json:"answer_id,omitempty"`
	IDAbsent bool        `json:"id_absent_or_null,omitempty"`
	Problems []string    `json:"problems,omitempty"`
	Frames   []string    `json:"frames,omitempty"`
	answer   *wire.Msg
	others   []*wire.Msg
}

func bounded(s string) string {
	if len(s) > 600 {
		return s[:600] + fmt.Sprintf("...(%d bytes)", len(s))
	}
	return s
}

// Observe classifies what came back.
func Observe(kind kit.Kind, ex *kit.Exchange) Outcome {
	o := Outcome{}
	frames := ex.Frames
	if ex.HTTP != nil {
		o.Status = ex.HTTP.Status
		if ex.HTTP.Status == 0 {
			o.Class = "transport-error"
			o.Problems = append(o.Problems, "transport error: "+ex.HTTP.Err)
			return o
		}
		ct := ex.HTTP.CT
		if !ex.HTTP.IsSSE && !strings.Contains(ct, "json") && kind != kit.Stdio && len(ex.HTTP.Body) > 0 && ex.Frames != nil && len(ex.Frames) == 1 && ex.Frames[0] == strings.TrimSpace(string(ex.HTTP.Body)) {
			// plain-text HTTP error body: not a JSON-RPC frame
			if ex.HTTP.Status < 200 || ex.HTTP.Status > 299 {
				frames = nil
			}
		}
	}
	for _, f := range frames {
		o.Frames = append(o.Frames, bounded(f))
		m := wire.Parse(f)
		for _, p := range m.Problem {
			o.Problems = append(o.Problems, p)
		}
		switch m.Kind {
		case "response", "error":
			if o.answer == nil {
				o.answer = m
			} else {
				o.Problems = append(o.Problems, "more than one response frame")
			}
		default:
			o.others = append(o.others, m)
		}
	}
	switch {
	case o.answer != nil && o.answer.Kind == "response":
		o.Class = "result"
		o.AnswerID = o.answer.ID
	case o.answer != nil:
		o.Class = "error"
		o.AnswerID = o.answer.ID
		o.IDAbsent = o.answer.ID == ""
		if o.answer.Error != nil {
			o.Code = o.answer.Error.Code
			o.Message = bounded(o.answer.Error.Message)
		}
	case len(frames) > 0 && len(o.others) == 0:
		o.Class = "malformed"
	case o.Status != 0 && (o.Status < 200 || o.Status > 299):
		o.Class = "http-refuse"
	case o.Status == 202:
		o.Class = "accepted-202"
	case o.Status >= 200 && o.Status <= 299:
		if ex.HTTP != nil && len(strings.TrimSpace(string(ex.HTTP.Body))) == 0 {
			o.Class = "empty-2xx"
		} else if len(o.others) > 0 {
			o.Class = "no-answer-frame"
		} else {
			o.Class = "malformed"
		}
	default:
		o.Class = "silence"
	}
	return o
}

func codeOK(codes []int, c int) bool {
	if len(codes) == 0 {
		return true
	}
	for _, x := range codes {
		if x == c {
			return true
		}
	}
	return false
}

// Judge compares the outcome with the reference classifier's expectation. It returns "" when the
// outcome conforms, otherwise a short symptom class.
func Judge(req Req, o Outcome) string {
	if len(o.Problems) > 0 {
		return "malformed-frame"
	}
	if o.Class == "malformed" {
		return "malformed-frame"
	}
	idOK := func(strict bool) bool {
		if req.RawID == "" {
			return true
		}
		if o.AnswerID == req.RawID {
			return true
		}
		return !strict && o.AnswerID == ""
	}
	switch req.Expect.Class {
	case "result":
		if o.Class != "result" {
			return "expected-result|got-" + o.Class
		}
		if !idOK(true) {
			return "id-not-echoed"
		}
		if req.Method != "" {
			if p := wire.CheckResult(req.Method, o.answer.Result); len(p) > 0 {
				return "result-shape"
			}
		}
	case "error":
		if o.Class != "error" {
			return "expected-error|got-" + o.Class
		}
		if !codeOK(req.Expect.Codes, o.Code) {
			return fmt.Sprintf("wrong-code|got%d", o.Code)
		}
		if req.Expect.MsgHas != "" && !strings.Contains(o.Message, req.Expect.MsgHas) {
			return "message-lost"
		}
		if !idOK(true) {
			return "id-not-echoed"
		}
	case "refuse":
		switch o.Class {
		case "http-refuse":
		case "error":
			if !codeOK(req.Expect.Codes, o.Code) {
				return fmt.Sprintf("wrong-code|got%d", o.Code)
			}
			if !idOK(false) {
				return "id-not-echoed"
			}
		default:
			return "expected-refusal|got-" + o.Class
		}
	case "answered":
		switch o.Class {
		case "result":
			if !idOK(true) {
				return "id-not-echoed"
			}
			if req.Method != "" {
				if p := wire.CheckResult(req.Method, o.answer.Result); len(p) > 0 {
					return "result-shape"
				}
			}
		case "error":
			if !idOK(false) {
				return "id-not-echoed"
			}
		case "http-refuse":
		default:
			return "expected-answer|got-" + o.Class
		}
	case "httprefuse":
		if o.Class != "http-refuse" {
			return "expected-http-refusal|got-" + o.Class
		}
	case "accepted", "anything":
		// only well-formedness (checked above)
	}
	return ""
}

// ShapeProblems returns the result-shape problems for witnesses.
func ShapeProblems(req Req, o Outcome) []string {
	if o.answer != nil && o.answer.Kind == "response" && req.Method != "" {
		return wire.CheckResult(req.Method, o.answer.Result)
	}
	return nil
}
