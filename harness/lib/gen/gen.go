// Package gen generates JSON-RPC requests (valid and structurally mutated) against the standard
// fixture together with what an independent reference classifier expects as the answer class.
package gen

import (
	"fmt"
	"math/rand"
	"sort"
	"strings"

	"verifharness/lib/kit"
)

// Expect is the reference classifier's verdict on a request, derived from HOW it was generated.
type Expect struct {
	// Class: "result"   a result frame with the request's id and the method's shape
	//        "error"    a JSON-RPC error frame (code in Codes when non-empty, message containing MsgHas)
	//        "refuse"   a JSON-RPC error frame (Codes) or a non-2xx HTTP status
	//        "answered" any of result / error frame / non-2xx status — but not silence or an empty 2xx
	//        "accepted" notification or response: 202 / silence is the protocol's answer
	//        "httprefuse" a non-2xx HTTP status (HTTP-level faults)
	Class  string
	Codes  []int
	MsgHas string
}

// Req is one generated request.
type Req struct {
	Label  string // class label, stable across seeds
	Method string // method for result-shape validation ("" when unknown)
	RawID  string // canonical raw id, "" when the message has none / an unusable one
	Body   []byte
	Opts   kit.PostOpts
	Expect Expect
	Common bool // one of the 8 methods every transport serves, well-formed envelope, string or integer id
	HTTP   bool // only meaningful on HTTP transports
}

// JSONTypes are the substitution values of the type lattice.
var JSONTypes = []struct{ Name, Raw string }{
	{"null", "null"}, {"bool", "true"}, {"int", "5"}, {"float", "1.5"}, {"string", `"str"`}, {"array", "[1]"}, {"object", `{"k":1}`},
}

type field struct{ k, v string }

func build(fs []field) []byte {
	var sb strings.Builder
	sb.WriteString("{")
	for i, f := range fs {
		if i > 0 {
			sb.WriteString(",")
		}
		sb.WriteString(`"` + f.k + `":` + f.v)
	}
	sb.WriteString("}")
	return []byte(sb.String())
}

func envelope(rawID, method, params string) []field {
	fs := []field{{"jsonrpc", `"2.0"`}}
	if rawID != "" {
		fs = append(fs, field{"id", rawID})
	}
	fs = append(fs, field{"method", `"` + method + `"`})
	if params != "" {
		fs = append(fs, field{"params", params})
	}
	return fs
}

// IDGen hands out unique ids, alternating integer and string form.
type IDGen struct {
	n      int
	prefix string
}

// NewIDGen creates a generator; prefix keeps string ids unique across connections.
func NewIDGen(prefix string, start int) *IDGen { return &IDGen{n: start, prefix: prefix} }

// Next returns the next raw id.
func (g *IDGen) Next() string {
	g.n++
	if g.n%2 == 0 {
		return fmt.Sprintf(`"%s-%d"`, g.prefix, g.n)
	}
	return fmt.Sprintf("%d", g.n)
}

type valid struct {
	label, method, params string
	exp                   Expect
	common                bool
}

const initParams = `{"protocolVersion":"2025-03-26","clientInfo":{"name":"gen","version":"1"},"capabilities":{}}`

func validTable(kind kit.Kind) []valid {
	res := Expect{Class: "result"}
	t := []valid{
		{"initialize", "initialize", initParams, res, true},
		{"ping", "ping", "", res, true},
		{"ping|params={}", "ping", "{}", res, true},
		{"tools/list", "tools/list", "", res, true},
		{"tools/list|params={}", "tools/list", "{}", res, true},
		{"tools/call|echo", "tools/call", `{"name":"echo","arguments":{"nonce":"g","payload":"p"}}`, res, true},
		{"tools/call|iserr", "tools/call", `{"name":"iserr","arguments":{"nonce":"g"}}`, res, true},
		{"tools/call|nilcontent", "tools/call", `{"name":"nilcontent","arguments":{}}`, res, true},
		{"tools/call|no-arguments", "tools/call", `{"name":"iserr"}`, res, true},
		{"tools/call|arguments=null", "tools/call", `{"name":"iserr","arguments":null}`, Expect{Class: "answered"}, true},
		{"tools/call|handler-error", "tools/call", `{"name":"fail","arguments":{"nonce":"zz"}}`, Expect{Class: "error", Codes: []int{-32603}, MsgHas: "boom:zz"}, true},
		{"tools/call|unencodable=NaN", "tools/call", `{"name":"nan","arguments":{}}`, Expect{Class: "error", Codes: []int{-32603}}, true},
		{"tools/call|unencodable=chan", "tools/call", `{"name":"chan","arguments":{}}`, Expect{Class: "error", Codes: []int{-32603}}, true},
		{"tools/call|unknown-tool", "tools/call", `{"name":"no-such-tool","arguments":{}}`, Expect{Class: "error", Codes: []int{-32601, -32602}}, true},
		{"prompts/list", "prompts/list", "", res, true},
		{"prompts/get|p-ok", "prompts/get", `{"name":"p-ok","arguments":{"who":"w"}}`, res, true},
		{"prompts/get|handler-error", "prompts/get", `{"name":"p-fail"}`, Expect{Class: "error", Codes: []int{-32603}, MsgHas: "prompt-boom"}, true},
		{"prompts/get|unknown", "prompts/get", `{"name":"no-such-prompt"}`, Expect{Class: "error", Codes: []int{-32601, -32602}}, true},
		{"resources/list", "resources/list", "", res, true},
		{"resources/read|ok", "resources/read", `{"uri":"res://ok"}`, res, true},
		{"resources/read|blob", "resources/read", `{"uri":"res://blob"}`, res, true},
		{"resources/read|multi", "resources/read", `{"uri":"res://multi"}`, res, true},
		{"resources/read|handler-error", "resources/read", `{"uri":"res://fail"}`, Expect{Class: "error", Codes: []int{-32603}, MsgHas: "resource-boom"}, true},
		{"resources/read|unknown", "resources/read", `{"uri":"res://nope"}`, Expect{Class: "error", Codes: []int{-32601, -32602}}, true},
		{"unknown-method", "no/such/method", "{}", Expect{Class: "error", Codes: []int{-32601}}, false},
		{"unknown-method|empty-name", "", "{}", Expect{Class: "refuse"}, false},
	}
	if kind != kit.Stdio {
		t = append(t,
			valid{"resources/templates/list", "resources/templates/list", "", res, false},
			valid{"resources/subscribe|ok", "resources/subscribe", `{"uri":"res://ok"}`, res, false},
			valid{"resources/subscribe|no-uri", "resources/subscribe", `{}`, Expect{Class: "error", Codes: []int{-32602}}, false},
			valid{"resources/unsubscribe|ok", "resources/unsubscribe", `{"uri":"res://ok"}`, res, false},
			valid{"completion/complete|no-ref", "completion/complete", `{}`, Expect{Class: "error", Codes: []int{-32602}}, false},
			valid{"completion/complete|prompt-ref", "completion/complete", `{"ref":{"type":"ref/prompt","name":"p-ok"},"argument":{"name":"who","value":"x"}}`, Expect{Class: "answered"}, false},
		)
	} else {
		t = append(t, valid{"stdio-unserved|resources/templates/list", "resources/templates/list", "", Expect{Class: "error", Codes: []int{-32601}}, false})
	}
	return t
}

type paramSpec struct {
	method   string
	base     map[string]string // member -> raw valid value
	required map[string]bool
	order    []string
}

func paramSpecs() []paramSpec {
	return []paramSpec{
		{"tools/call", map[string]string{"name": `"iserr"`, "arguments": `{"nonce":"m"}`}, map[string]bool{"name": true}, []string{"name", "arguments"}},
		{"prompts/get", map[string]string{"name": `"p-ok"`, "arguments": `{"who":"w"}`}, map[string]bool{"name": true}, []string{"name", "arguments"}},
		{"resources/read", map[string]string{"uri": `"res://ok"`}, map[string]bool{"uri": true}, []string{"uri"}},
		{"initialize", map[string]string{"protocolVersion": `"2025-03-26"`, "clientInfo": `{"name":"gen","version":"1"}`, "capabilities": `{}`}, map[string]bool{"protocolVersion": true}, []string{"protocolVersion", "clientInfo", "capabilities"}},
	}
}

func paramsObj(spec paramSpec, over map[string]string, drop string, extra string) string {
	var parts []string
	for _, k := range spec.order {
		if k == drop {
			continue
		}
		v := spec.base[k]
		if o, ok := over[k]; ok {
			v = o
		}
		parts = append(parts, `"`+k+`":`+v)
	}
	if extra != "" {
		parts = append(parts, extra)
	}
	return "{" + strings.Join(parts, ",") + "}"
}

// Requests returns the generated request list for a server kind. level 0 = quick subset, 1 = full lattice.
func Requests(kind kit.Kind, rng *rand.Rand, ids *IDGen, level int) []Req {
	var out []Req
	add := func(label, method string, fs []field, rawID string, exp Expect, common bool) {
		out = append(out, Req{Label: label, Method: method, RawID: rawID, Body: build(fs), Expect: exp, Common: common})
	}
	// 1. valid requests
	for _, v := range validTable(kind) {
		id := ids.Next()
		add("valid|"+v.label, v.method, envelope(id, v.method, v.params), kit.CanonID([]byte(id)), v.exp, v.common)
	}
	// 2. params as a whole: absent / every JSON type, for every method
	for _, m := range []struct {
		method   string
		needs    bool
		common   bool
		httpOnly bool
	}{{"initialize", true, true, false}, {"ping", false, true, false}, {"tools/list", false, true, false}, {"tools/call", true, true, false},
		{"prompts/list", false, true, false}, {"prompts/get", true, true, false}, {"resources/list", false, true, false}, {"resources/read", true, true, false},
		{"resources/templates/list", false, false, true}, {"resources/subscribe", true, false, true}, {"resources/unsubscribe", true, false, true}, {"completion/complete", true, false, true}} {
		if m.httpOnly && kind == kit.Stdio {
			continue
		}
		variants := []struct{ name, raw string }{{"absent", ""}}
		for _, jt := range JSONTypes {
			variants = append(variants, struct{ name, raw string }{jt.Name, jt.Raw})
		}
		for _, v := range variants {
			id := ids.Next()
			exp := Expect{Class: "answered"} // list methods and ping may ignore params
			if m.needs {
				exp = Expect{Class: "error", Codes: []int{-32602}}
			}
			add(fmt.Sprintf("params|%s|params=%s", m.method, v.name), m.method, envelope(id, m.method, v.raw), kit.CanonID([]byte(id)), exp, m.common)
		}
	}
	// 3. each parameter removed / retyped
	for _, spec := range paramSpecs() {
		for _, k := range spec.order {
			vars := []struct{ name, raw string }{{"absent", "\x00"}}
			for _, jt := range JSONTypes {
				vars = append(vars, struct{ name, raw string }{jt.Name, jt.Raw})
			}
			for _, v := range vars {
				var params string
				if v.raw == "\x00" {
					params = paramsObj(spec, nil, k, "")
				} else {
					params = paramsObj(spec, map[string]string{k: v.raw}, "", "")
				}
				exp := Expect{Class: "answered"}
				validType := (k == "arguments" || k == "clientInfo" || k == "capabilities") && v.name == "object" || (k != "arguments" && k != "clientInfo" && k != "capabilities") && v.name == "string"
				switch {
				case spec.required[k] && v.name == "string":
					// a string of the right type but an unknown name/uri/version
					if spec.method == "initialize" {
						exp = Expect{Class: "result"}
					} else {
						exp = Expect{Class: "error", Codes: []int{-32601, -32602}}
					}
				case spec.required[k]:
					exp = Expect{Class: "error", Codes: []int{-32602}}
				case spec.method == "tools/call" && k == "arguments" && (v.name == "bool" || v.name == "int" || v.name == "float" || v.name == "string" || v.name == "array"):
					exp = Expect{Class: "error", Codes: []int{-32602}}
				case validType, v.name == "absent":
					exp = Expect{Class: "result"}
				}
				id := ids.Next()
				add(fmt.Sprintf("param|%s|%s=%s", spec.method, k, v.name), spec.method, envelope(id, spec.method, params), kit.CanonID([]byte(id)), exp, true)
			}
		}
		// unknown extra member and duplicated member
		id := ids.Next()
		add(fmt.Sprintf("param|%s|extra-member", spec.method), spec.method, envelope(id, spec.method, paramsObj(spec, nil, "", `"zzExtra":{"a":[1,2]}`)), kit.CanonID([]byte(id)), Expect{Class: "result"}, true)
		id = ids.Next()
		first := spec.order[0]
		add(fmt.Sprintf("param|%s|duplicate-%s", spec.method, first), spec.method, envelope(id, spec.method, paramsObj(spec, nil, "", `"`+first+`":`+spec.base[first])), kit.CanonID([]byte(id)), Expect{Class: "answered"}, false)
	}
	if level > 0 {
		// 3b. two parameters mutated at once, and tool arguments retyped one level down (differential fodder:
		// the reference classifier only says "answered"; the transports must still agree with each other)
		for _, spec := range paramSpecs() {
			if len(spec.order) < 2 {
				continue
			}
			for _, j1 := range JSONTypes {
				for _, j2 := range JSONTypes {
					id := ids.Next()
					params := paramsObj(spec, map[string]string{spec.order[0]: j1.Raw, spec.order[1]: j2.Raw}, "", "")
					add(fmt.Sprintf("param2|%s|%s=%s,%s=%s", spec.method, spec.order[0], j1.Name, spec.order[1], j2.Name), spec.method, envelope(id, spec.method, params), kit.CanonID([]byte(id)), Expect{Class: "answered"}, true)
				}
			}
		}
		for _, arg := range []string{"nonce", "payload", "delay_us", "pad_n"} {
			for _, jt := range JSONTypes {
				id := ids.Next()
				params := `{"name":"echo","arguments":{"nonce":"n","payload":"p","` + arg + `":` + jt.Raw + `}}`
				add(fmt.Sprintf("param3|tools/call|echo.%s=%s", arg, jt.Name), "tools/call", envelope(id, "tools/call", params), kit.CanonID([]byte(id)), Expect{Class: "answered"}, true)
			}
		}
		for _, rawid := range []string{"0", "-1", "1000000", "2147483648", "9007199254740991", `""`, `"01"`, `"1e6"`, `"ünï"`} {
			add("idclass|ping|id="+rawid, "ping", envelope(rawid, "ping", ""), kit.CanonID([]byte(rawid)), Expect{Class: "result"}, true)
			add("idclass|unknown-tool|id="+rawid, "tools/call", envelope(rawid, "tools/call", `{"name":"nope"}`), kit.CanonID([]byte(rawid)), Expect{Class: "error", Codes: []int{-32601, -32602}}, true)
		}
	}
	// 4. envelope members removed / retyped / duplicated
	for _, jt := range append([]struct{ Name, Raw string }{{"absent", ""}, {"v1.0", `"1.0"`}}, JSONTypes...) {
		if jt.Name == "string" {
			continue
		}
		id := ids.Next()
		fs := []field{}
		if jt.Raw != "" {
			fs = append(fs, field{"jsonrpc", jt.Raw})
		}
		fs = append(fs, field{"id", id}, field{"method", `"ping"`})
		add("envelope|jsonrpc="+jt.Name, "ping", fs, kit.CanonID([]byte(id)), Expect{Class: "answered"}, false)
	}
	for _, jt := range JSONTypes {
		if jt.Name == "string" {
			continue
		}
		id := ids.Next()
		fs := []field{{"jsonrpc", `"2.0"`}, {"id", id}, {"method", jt.Raw}}
		add("envelope|method="+jt.Name, "", fs, kit.CanonID([]byte(id)), Expect{Class: "refuse"}, false)
	}
	{
		id := ids.Next()
		add("envelope|method=absent(id-only)", "", []field{{"jsonrpc", `"2.0"`}, {"id", id}}, kit.CanonID([]byte(id)), Expect{Class: "refuse"}, false)
		add("envelope|empty-object", "", []field{}, "", Expect{Class: "refuse"}, false)
		add("envelope|only-jsonrpc", "", []field{{"jsonrpc", `"2.0"`}}, "", Expect{Class: "refuse"}, false)
		id = ids.Next()
		add("envelope|duplicate-method", "ping", []field{{"jsonrpc", `"2.0"`}, {"id", id}, {"method", `"ping"`}, {"method", `"ping"`}}, kit.CanonID([]byte(id)), Expect{Class: "answered"}, false)
		id = ids.Next()
		add("envelope|duplicate-id", "ping", []field{{"jsonrpc", `"2.0"`}, {"id", id}, {"id", id}, {"method", `"ping"`}}, kit.CanonID([]byte(id)), Expect{Class: "answered"}, false)
		id = ids.Next()
		add("envelope|extra-member", "ping", []field{{"jsonrpc", `"2.0"`}, {"id", id}, {"method", `"ping"`}, {"zz", `[1,{"a":null}]`}}, kit.CanonID([]byte(id)), Expect{Class: "result"}, true)
	}
	for _, jt := range []struct{ Name, Raw string }{{"null", "null"}, {"bool", "true"}, {"float", "1.5"}, {"array", "[1]"}, {"object", `{"k":1}`}} {
		fs := []field{{"jsonrpc", `"2.0"`}, {"id", jt.Raw}, {"method", `"ping"`}}
		cls := "answered"
		if jt.Name == "null" {
			cls = "accepted" // id null: HTTP servers treat it as a notification; stdio answers with id null — both fine
		}
		add("envelope|id="+jt.Name, "ping", fs, "", Expect{Class: cls}, false)
	}
	// 5. notifications and responses to requests never sent
	add("notification|initialized", "", []field{{"jsonrpc", `"2.0"`}, {"method", `"notifications/initialized"`}}, "", Expect{Class: "accepted"}, false)
	add("notification|unknown", "", []field{{"jsonrpc", `"2.0"`}, {"method", `"notifications/nobody-listens"`}, {"params", `{"x":1}`}}, "", Expect{Class: "accepted"}, false)
	add("notification|cancelled", "", []field{{"jsonrpc", `"2.0"`}, {"method", `"notifications/cancelled"`}, {"params", `{"requestId":12345,"reason":"x"}`}}, "", Expect{Class: "accepted"}, false)
	for _, idv := range []string{"987654", `"server_req_999"`, "1.5", "true", "null", `{"a":1}`, "[1]", "1000000", "-1"} {
		add("response-never-sent|result|id="+idClass(idv), "", []field{{"jsonrpc", `"2.0"`}, {"id", idv}, {"result", `{"roots":[]}`}}, "", Expect{Class: "accepted"}, false)
		add("response-never-sent|error|id="+idClass(idv), "", []field{{"jsonrpc", `"2.0"`}, {"id", idv}, {"error", `{"code":-32601,"message":"nope"}`}}, "", Expect{Class: "accepted"}, false)
	}
	add("response-never-sent|both", "", []field{{"jsonrpc", `"2.0"`}, {"id", "424242"}, {"result", `{}`}, {"error", `{"code":1,"message":"x"}`}}, "", Expect{Class: "accepted"}, false)
	add("response-never-sent|result-wrong-type", "", []field{{"jsonrpc", `"2.0"`}, {"id", "424243"}, {"result", `5`}}, "", Expect{Class: "accepted"}, false)
	// 6. raw bodies that are not JSON-RPC objects
	raws := []struct{ name, body string }{
		{"not-json", "this is not json"}, {"truncated", `{"jsonrpc":"2.0","id":987004,"method":"pi`}, {"json-array", `[{"jsonrpc":"2.0","id":987005,"method":"ping"}]`},
		{"json-number", "42"}, {"json-string", `"ping"`}, {"json-null", "null"}, {"json-true", "true"}, {"empty-array", "[]"},
		{"invalid-utf8", "{\"jsonrpc\":\"2.0\",\"id\":987001,\"method\":\"pi\xff\xfeng\"}"}, {"nul-byte", "{\"jsonrpc\":\"2.0\",\x00\"id\":1}"},
		{"trailing-garbage", `{"jsonrpc":"2.0","id":987002,"method":"ping"} trailing`},
	}
	for _, rw := range raws {
		exp := Expect{Class: "refuse", Codes: []int{-32700, -32600}}
		if rw.name == "trailing-garbage" || rw.name == "invalid-utf8" {
			exp = Expect{Class: "answered"} // a lenient parser may serve the leading value / replace bad bytes
		}
		out = append(out, Req{Label: "raw|" + rw.name, Body: []byte(rw.body), Expect: exp})
	}
	if level > 0 {
		// truncations of a valid message at every offset and seeded bit flips
		base := build(envelope("987003", "tools/call", `{"name":"echo","arguments":{"nonce":"t","payload":"pp"}}`))
		for cut := 1; cut < len(base); cut++ {
			out = append(out, Req{Label: "raw|truncation", Body: append([]byte{}, base[:cut]...), Expect: Expect{Class: "refuse", Codes: []int{-32700, -32600}}})
		}
		for i := 0; i < 200; i++ {
			b := append([]byte{}, base...)
			pos := rng.Intn(len(b))
			b[pos] ^= byte(1 << uint(rng.Intn(8)))
			out = append(out, Req{Label: "raw|bitflip", Body: b, Expect: Expect{Class: "anything"}})
		}
		for i := 0; i < 100; i++ {
			n := 1 + rng.Intn(200)
			b := make([]byte, n)
			rng.Read(b)
			for j := range b {
				if b[j] == '\n' {
					b[j] = ' '
				}
			}
			out = append(out, Req{Label: "raw|random-bytes", Body: b, Expect: Expect{Class: "anything"}})
		}
	}
	// 7. deep nesting and very large values
	deep := strings.Repeat("[", 10000) + strings.Repeat("]", 10000)
	{
		id := ids.Next()
		add("size|params-10000-deep", "ping", envelope(id, "ping", `{"x":`+deep+`}`), kit.CanonID([]byte(id)), Expect{Class: "answered"}, false)
		id = ids.Next()
		big := `"` + strings.Repeat("A", 1<<20) + `"`
		add("size|1MiB-string-argument", "tools/call", envelope(id, "tools/call", `{"name":"echo","arguments":{"nonce":"big","payload":`+big+`}}`), kit.CanonID([]byte(id)), Expect{Class: "result"}, true)
		id = ids.Next()
		add("size|1MiB-method", "", []field{{"jsonrpc", `"2.0"`}, {"id", id}, {"method", big}}, kit.CanonID([]byte(id)), Expect{Class: "error", Codes: []int{-32601}}, false)
	}
	sort.SliceStable(out, func(i, j int) bool { return false })
	return out
}

func idClass(raw string) string {
	switch {
	case strings.HasPrefix(raw, `"`):
		return "string"
	case raw == "null" || raw == "true":
		return raw
	case strings.HasPrefix(raw, "{"):
		return "object"
	case strings.HasPrefix(raw, "["):
		return "array"
	case strings.Contains(raw, "."):
		return "float"
	case raw == "1000000":
		return "int-1e6"
	case strings.HasPrefix(raw, "-"):
		return "negative"
	}
	return "int"
}

// HTTPLevel returns HTTP-level mutations (wrong path / verb / headers) of a valid ping.
func HTTPLevel(kind kit.Kind, in *kit.Instance, ids *IDGen) []Req {
	if !kind.IsStreamable() && kind != kit.LSSE {
		return nil
	}
	var out []Req
	ping := func() (string, []byte) {
		id := ids.Next()
		return kit.CanonID([]byte(id)), build(envelope(id, "ping", ""))
	}
	base := in.BaseURL()
	if kind.IsStreamable() {
		for _, p := range []string{"/", "/mcp/", "/mcp/extra", "/other", "/MCP", "/mcpx"} {
			id, b := ping()
			out = append(out, Req{Label: "http|wrong-path|POST", Method: "ping", RawID: id, Body: b, Opts: kit.PostOpts{URL: base + p}, Expect: Expect{Class: "httprefuse"}, HTTP: true})
		}
		for _, p := range []string{"/", "/other"} {
			id, b := ping()
			out = append(out, Req{Label: "http|wrong-path|GET", Method: "ping", RawID: id, Body: b, Opts: kit.PostOpts{URL: base + p, Method: "GET"}, Expect: Expect{Class: "httprefuse"}, HTTP: true})
			id, b = ping()
			out = append(out, Req{Label: "http|wrong-path|DELETE", Method: "ping", RawID: id, Body: b, Opts: kit.PostOpts{URL: base + p, Method: "DELETE"}, Expect: Expect{Class: "httprefuse"}, HTTP: true})
		}
		for _, verb := range []string{"PUT", "PATCH", "HEAD", "OPTIONS", "TRACE", "BREW"} {
			id, b := ping()
			out = append(out, Req{Label: "http|verb=" + verb, Method: "ping", RawID: id, Body: b, Opts: kit.PostOpts{Method: verb}, Expect: Expect{Class: "httprefuse"}, HTTP: true})
		}
		for _, h := range []struct{ name, k, v string }{
			{"content-type=garbage", "Content-Type", "garbage/~;;=,"}, {"content-type=absent", "Content-Type", "\x00del"}, {"content-type=text", "Content-Type", "text/plain"},
			{"accept=garbage", "Accept", ";;;,,q=x"}, {"accept=absent", "Accept", "\x00del"}, {"accept=sse-only", "Accept", "text/event-stream"}, {"accept=star", "Accept", "*/*"},
			{"accept=huge", "Accept", strings.Repeat("a/b,", 2000)},
		} {
			id, b := ping()
			out = append(out, Req{Label: "http|header|" + h.name, Method: "ping", RawID: id, Body: b, Opts: kit.PostOpts{Headers: map[string]string{h.k: h.v}}, Expect: Expect{Class: "answered"}, HTTP: true})
		}
		if kind.Stateful() {
			for _, h := range []struct{ name, v string }{{"unknown", "deadbeefdeadbeefdeadbeefdeadbeef"}, {"garbage", "~!!<>"}, {"huge", strings.Repeat("s", 8000)}} {
				id, b := ping()
				out = append(out, Req{Label: "http|session-id=" + h.name, Method: "ping", RawID: id, Body: b, Opts: kit.PostOpts{Headers: map[string]string{"Mcp-Session-Id": h.v}, NoSessionID: true}, Expect: Expect{Class: "httprefuse"}, HTTP: true})
			}
			id, b := ping()
			out = append(out, Req{Label: "http|session-id=absent", Method: "ping", RawID: id, Body: b, Opts: kit.PostOpts{NoSessionID: true}, Expect: Expect{Class: "httprefuse"}, HTTP: true})
		}
	} else { // legacy SSE
		for _, p := range []string{"/", "/messages", "/sse/x", "/message/"} {
			id, b := ping()
			out = append(out, Req{Label: "http|wrong-path|POST", Method: "ping", RawID: id, Body: b, Opts: kit.PostOpts{URL: base + p + "?sessionId=x"}, Expect: Expect{Class: "httprefuse"}, HTTP: true})
		}
		for _, verb := range []string{"GET", "PUT", "DELETE", "PATCH", "HEAD"} {
			id, b := ping()
			out = append(out, Req{Label: "http|verb=" + verb, Method: "ping", RawID: id, Body: b, Opts: kit.PostOpts{Method: verb}, Expect: Expect{Class: "httprefuse"}, HTTP: true})
		}
		for _, q := range []struct{ name, q string }{{"absent", ""}, {"unknown", "?sessionId=sse-00000000-0000-0000-0000-000000000000"}, {"empty", "?sessionId="}, {"garbage", "?sessionId=%00%ff"}} {
			id, b := ping()
			out = append(out, Req{Label: "http|session-id=" + q.name, Method: "ping", RawID: id, Body: b, Opts: kit.PostOpts{URL: base + "/message" + q.q}, Expect: Expect{Class: "httprefuse"}, HTTP: true})
		}
		for _, verb := range []string{"POST", "PUT", "DELETE"} {
			id, b := ping()
			out = append(out, Req{Label: "http|sse-endpoint-verb=" + verb, Method: "ping", RawID: id, Body: b, Opts: kit.PostOpts{URL: base + "/sse", Method: verb}, Expect: Expect{Class: "httprefuse"}, HTTP: true})
		}
	}
	return out
}
