package gen

import (
	"bytes"
	"context"
	"strings"
	"time"

	"verifharness/lib/kit"
)

// Session tracks the ids already used on one raw connection so that late answers to earlier requests are
// not attributed to the current input.
type Session struct {
	C    *kit.RawConn
	Kind kit.Kind
	sent map[string]bool
}

// NewSession wraps a raw connection.
func NewSession(c *kit.RawConn, kind kit.Kind) *Session {
	return &Session{C: c, Kind: kind, sent: map[string]bool{}}
}

func sanitize(kind kit.Kind, b []byte) []byte {
	if kind != kit.Stdio {
		return b
	}
	b = bytes.ReplaceAll(b, []byte("\n"), []byte(" "))
	return bytes.ReplaceAll(b, []byte("\r"), []byte(" "))
}

func isFence(data string) bool {
	id, has, hm := kit.FrameID(data)
	return has && !hm && strings.HasPrefix(id, `"fence-`)
}

// Do sends one generated request and returns the exchange and its classified outcome.
// On asynchronous transports (stdio, legacy SSE) the answer is awaited by id when the request has a usable
// one; otherwise a fence ping delimits the reaction. A missing answer is confirmed by one slow re-post
// before it is reported. Response frames that carry the id of an EARLIER request of this session are late
// answers and are dropped from the current reaction.
func (s *Session) Do(ctx context.Context, rq Req) (*kit.Exchange, Outcome) {
	body := sanitize(s.Kind, rq.Body)
	async := s.Kind == kit.Stdio || s.Kind == kit.LSSE
	opts := rq.Opts
	expectsAnswer := rq.Expect.Class != "accepted" && rq.Expect.Class != "anything" && rq.Expect.Class != "httprefuse"
	if async && rq.RawID != "" && expectsAnswer && !s.sent[rq.RawID] {
		opts.WantID = rq.RawID
		opts.Wait = 5 * time.Second
	}
	ex := s.C.Post(ctx, body, opts)
	if async && ex.TimedOut && opts.WantID != "" {
		// no frame with that id: look at everything that arrived meanwhile (e.g. an error without id)
		ex.TimedOut = false
	}
	s.filterLate(ex, rq.RawID)
	o := Observe(s.Kind, ex)
	if async && (o.Class == "silence" || o.Class == "accepted-202") && expectsAnswer {
		from := s.C.Log.Len()
		o2 := rq.Opts
		o2.NoWait = true
		ex2 := s.C.Post(ctx, body, o2)
		if _, ok := s.C.Log.WaitFor(from, 3*time.Second, func(f kit.Frame) bool {
			if isFence(f.Data) {
				return false
			}
			id, has, hm := kit.FrameID(f.Data)
			return !(has && !hm && id != rq.RawID && s.sent[id])
		}); ok {
			time.Sleep(20 * time.Millisecond)
			for _, f := range s.C.Log.Since(from) {
				if !isFence(f.Data) {
					ex2.Frames = append(ex2.Frames, f.Data)
				}
			}
			s.filterLate(ex2, rq.RawID)
			// the same request was sent twice: at most one of the two answers is needed
			ex2.Frames = dedupeByID(ex2.Frames, rq.RawID)
			if rq.RawID != "" {
				s.sent[rq.RawID] = true
			}
			return ex2, Observe(s.Kind, ex2)
		}
	}
	if rq.RawID != "" {
		s.sent[rq.RawID] = true
	}
	return ex, o
}

func (s *Session) filterLate(ex *kit.Exchange, cur string) {
	if s.Kind != kit.Stdio && s.Kind != kit.LSSE {
		return
	}
	var keep []string
	for _, f := range ex.Frames {
		id, has, hm := kit.FrameID(f)
		if has && !hm && id != cur && s.sent[id] {
			continue
		}
		keep = append(keep, f)
	}
	ex.Frames = keep
}

func dedupeByID(frames []string, cur string) []string {
	if cur == "" {
		return frames
	}
	seen := false
	var keep []string
	for _, f := range frames {
		id, has, hm := kit.FrameID(f)
		if has && !hm && id == cur {
			if seen {
				continue
			}
			seen = true
		}
		keep = append(keep, f)
	}
	return keep
}
