package peer

import (
	"bytes"
	"context"
	"encoding/json"
	"errors"
	"io"
	"net"
	"net/http"
	"strings"
	"sync"
	"sync/atomic"
	"time"
)

// Reaction is everything a server sent back on one HTTP exchange.
type Reaction struct {
	Status int         `json:"status"`
	Header http.Header `json:"-"`
	CT     string      `json:"content_type,omitempty"`
	Sess   string      `json:"session_header,omitempty"`
	Body   []byte      `json:"-"`
	BodyS  string      `json:"body,omitempty"` // bounded copy for witnesses
	IsSSE  bool        `json:"is_sse,omitempty"`
	Events []SSEEvent  `json:"events,omitempty"`
	Err    string      `json:"err,omitempty"`
}

// Frames returns the JSON-RPC frames of the reaction: the SSE event data values, or the body itself
// (trimmed) when it is not an event stream and not empty.
func (r *Reaction) Frames() []string {
	if r.IsSSE {
		out := make([]string, 0, len(r.Events))
		for _, e := range r.Events {
			out = append(out, e.Data)
		}
		return out
	}
	b := strings.TrimSpace(string(r.Body))
	if b == "" {
		return nil
	}
	return []string{b}
}

// HTTPPeer is a raw HTTP client with its own connection pool.
type HTTPPeer struct {
	Client *http.Client
	tr     *http.Transport
}

// NewHTTPPeer creates a peer with a private transport.
func NewHTTPPeer() *HTTPPeer {
	tr := &http.Transport{
		DialContext:         (&net.Dialer{Timeout: 10 * time.Second}).DialContext,
		MaxIdleConns:        64,
		MaxIdleConnsPerHost: 64,
		IdleConnTimeout:     30 * time.Second,
		DisableCompression:  true,
	}
	return &HTTPPeer{Client: &http.Client{Transport: tr}, tr: tr}
}

// Close drops idle connections.
func (p *HTTPPeer) Close() { p.tr.CloseIdleConnections() }

func bounded(b []byte) string {
	if len(b) > 2048 {
		return string(b[:2048]) + "...(" + itoa(len(b)) + " bytes)"
	}
	return string(b)
}

func itoa(n int) string {
	b, _ := json.Marshal(n)
	return string(b)
}

// Do performs one exchange and reads the whole response (an SSE response is read to its end).
func (p *HTTPPeer) Do(ctx context.Context, method, url string, hdr map[string]string, body []byte) *Reaction {
	var rd io.Reader
	if body != nil {
		rd = bytes.NewReader(body)
	}
	req, err := http.NewRequestWithContext(ctx, method, url, rd)
	if err != nil {
		return &Reaction{Err: err.Error()}
	}
	for k, v := range hdr {
		if v == "\x00del" {
			req.Header.Del(k)
			continue
		}
		req.Header[k] = append(req.Header[k], v)
	}
	resp, err := p.Client.Do(req)
	if err != nil {
		return &Reaction{Err: err.Error()}
	}
	defer resp.Body.Close()
	r := &Reaction{Status: resp.StatusCode, Header: resp.Header, CT: resp.Header.Get("Content-Type"), Sess: resp.Header.Get("Mcp-Session-Id")}
	if strings.Contains(r.CT, "text/event-stream") {
		r.IsSSE = true
		sr := NewSSEReader(resp.Body)
		sr.KeepRaw = true
		for {
			ev, err := sr.Next()
			if err != nil {
				if !errors.Is(err, io.EOF) && !errors.Is(err, io.ErrUnexpectedEOF) {
					r.Err = err.Error()
				}
				break
			}
			r.Events = append(r.Events, *ev)
		}
		r.Body = sr.Raw
	} else {
		b, err := io.ReadAll(resp.Body)
		if err != nil {
			r.Err = err.Error()
		}
		r.Body = b
	}
	r.BodyS = bounded(r.Body)
	return r
}

// Stream is an open event stream being read in the background.
type Stream struct {
	Status int
	Header http.Header
	Events chan SSEEvent // closed at end of stream
	cancel context.CancelFunc
	mu     sync.Mutex
	raw    []byte
	sr     *SSEReader
	done   chan struct{}
	Err    error
	paused atomic.Bool
}

// Pause stops the background reader before its next read (slow-reader simulation); Resume restarts it.
func (s *Stream) Pause()  { s.paused.Store(true) }
func (s *Stream) Resume() { s.paused.Store(false) }

// OpenStream issues the request and, on a 200 text/event-stream answer, starts reading events.
// For any other answer the Reaction is returned and Stream is nil.
func (p *HTTPPeer) OpenStream(ctx context.Context, method, url string, hdr map[string]string, buf int) (*Stream, *Reaction) {
	sctx, cancel := context.WithCancel(ctx)
	req, err := http.NewRequestWithContext(sctx, method, url, nil)
	if err != nil {
		cancel()
		return nil, &Reaction{Err: err.Error()}
	}
	for k, v := range hdr {
		req.Header[k] = append(req.Header[k], v)
	}
	resp, err := p.Client.Do(req)
	if err != nil {
		cancel()
		return nil, &Reaction{Err: err.Error()}
	}
	ct := resp.Header.Get("Content-Type")
	if resp.StatusCode != 200 || !strings.Contains(ct, "text/event-stream") {
		b, _ := io.ReadAll(io.LimitReader(resp.Body, 1<<20))
		resp.Body.Close()
		cancel()
		return nil, &Reaction{Status: resp.StatusCode, Header: resp.Header, CT: ct, Sess: resp.Header.Get("Mcp-Session-Id"), Body: b, BodyS: bounded(b)}
	}
	if buf <= 0 {
		buf = 4096
	}
	s := &Stream{Status: resp.StatusCode, Header: resp.Header, Events: make(chan SSEEvent, buf), cancel: cancel, done: make(chan struct{})}
	s.sr = NewSSEReader(resp.Body)
	s.sr.KeepRaw = true
	go func() {
		defer close(s.done)
		defer close(s.Events)
		defer resp.Body.Close()
		for {
			for s.paused.Load() {
				select {
				case <-sctx.Done():
					return
				case <-time.After(2 * time.Millisecond):
				}
			}
			ev, err := s.sr.Next()
			if err != nil {
				s.mu.Lock()
				s.Err = err
				s.mu.Unlock()
				return
			}
			select {
			case s.Events <- *ev:
			case <-sctx.Done():
				return
			}
		}
	}()
	return s, &Reaction{Status: resp.StatusCode, Header: resp.Header, CT: ct, Sess: resp.Header.Get("Mcp-Session-Id"), IsSSE: true}
}

// Close ends the stream from the peer's side.
func (s *Stream) Close() {
	s.cancel()
	<-s.done
}

// Done is closed when the stream has ended (EOF, error or Close).
func (s *Stream) Done() <-chan struct{} { return s.done }

// Raw returns the bytes consumed so far (only safe after Done).
func (s *Stream) Raw() []byte { return s.sr.Raw }

// Comments returns the number of comment lines seen (only safe after Done).
func (s *Stream) Comments() int { return s.sr.Comments }

// CommentsSoFar is safe to call while the stream is being read.
func (s *Stream) CommentsSoFar() int { return int(s.sr.ncomm.Load()) }
