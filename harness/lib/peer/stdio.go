package peer

import (
	"bytes"
	"sync"
	"time"
)

// Recorder is an io.Writer that keeps every byte written to it, splits the stream strictly at '\n'
// and lets readers wait for lines. Each Write call is atomic (like a write(2) on a pipe below
// PIPE_BUF); nothing else is serialised, so a frame written in two calls can be interleaved by
// another writer exactly as on a real pipe.
type Recorder struct {
	mu     sync.Mutex
	cond   *sync.Cond
	raw    []byte
	lines  [][]byte
	part   []byte
	writes int
	closed bool
}

// NewRecorder creates an empty recorder.
func NewRecorder() *Recorder {
	r := &Recorder{}
	r.cond = sync.NewCond(&r.mu)
	return r
}

func (r *Recorder) Write(p []byte) (int, error) {
	r.mu.Lock()
	r.writes++
	r.raw = append(r.raw, p...)
	rest := p
	for {
		i := bytes.IndexByte(rest, '\n')
		if i < 0 {
			r.part = append(r.part, rest...)
			break
		}
		line := append(append([]byte{}, r.part...), rest[:i]...)
		r.part = r.part[:0]
		r.lines = append(r.lines, line)
		rest = rest[i+1:]
	}
	r.cond.Broadcast()
	r.mu.Unlock()
	return len(p), nil
}

// Close wakes up waiters.
func (r *Recorder) Close() {
	r.mu.Lock()
	r.closed = true
	r.cond.Broadcast()
	r.mu.Unlock()
}

// Raw returns a copy of all bytes written so far.
func (r *Recorder) Raw() []byte {
	r.mu.Lock()
	defer r.mu.Unlock()
	return append([]byte{}, r.raw...)
}

// NLines returns the number of complete lines so far.
func (r *Recorder) NLines() int {
	r.mu.Lock()
	defer r.mu.Unlock()
	return len(r.lines)
}

// Partial returns the bytes after the last newline.
func (r *Recorder) Partial() []byte {
	r.mu.Lock()
	defer r.mu.Unlock()
	return append([]byte{}, r.part...)
}

// Line returns line i, waiting up to d for it; ok=false on timeout/close.
func (r *Recorder) Line(i int, d time.Duration) ([]byte, bool) {
	deadline := time.Now().Add(d)
	timer := time.AfterFunc(d, func() {
		r.mu.Lock()
		r.cond.Broadcast()
		r.mu.Unlock()
	})
	defer timer.Stop()
	r.mu.Lock()
	defer r.mu.Unlock()
	for len(r.lines) <= i {
		if r.closed || !time.Now().Before(deadline) {
			return nil, false
		}
		r.cond.Wait()
	}
	return r.lines[i], true
}

// WaitLines waits until at least n lines exist or d elapsed; returns the count.
func (r *Recorder) WaitLines(n int, d time.Duration) int {
	if n > 0 {
		r.Line(n-1, d)
	}
	return r.NLines()
}

// Lines returns a copy of lines [from, to).
func (r *Recorder) Lines(from int) [][]byte {
	r.mu.Lock()
	defer r.mu.Unlock()
	if from > len(r.lines) {
		from = len(r.lines)
	}
	out := make([][]byte, len(r.lines)-from)
	copy(out, r.lines[from:])
	return out
}
