// Package peer contains reference peers written without any type of the library under test:
// a WHATWG-conforming SSE parser, a raw HTTP peer, a legacy-SSE raw session and a stdio line peer.
package peer

import (
	"bufio"
	"io"
	"strings"
	"sync/atomic"
)

// SSEEvent is one dispatched server-sent event.
type SSEEvent struct {
	ID       string   `json:"id,omitempty"`
	IDLines  []string `json:"id_lines,omitempty"` // every id: line seen inside this event (more than one betrays interleaving)
	Event    string   `json:"event,omitempty"`
	Data     string   `json:"data"`
	DataN    int      `json:"data_lines"`
	Comments []string `json:"comments,omitempty"` // comment lines seen since the previous dispatched event
	Unknown  []string `json:"unknown,omitempty"`  // lines that are neither field, comment nor blank
}

// SSEReader parses an event stream by the WHATWG rules: lines end in CR, LF or CRLF; a line starting
// with ':' is a comment; "field: value" strips one leading space; data lines are joined with LF; an empty
// line dispatches the event if its data buffer is non-empty.
type SSEReader struct {
	br       *bufio.Reader
	bomDone  bool
	pendCR   bool
	lastID   string
	Raw      []byte // all bytes consumed (when KeepRaw)
	KeepRaw  bool
	Comments int
	ncomm    atomic.Int64
}

// NewSSEReader wraps r.
func NewSSEReader(r io.Reader) *SSEReader {
	return &SSEReader{br: bufio.NewReaderSize(r, 64<<10)}
}

func (s *SSEReader) readLine() (string, error) {
	var sb strings.Builder
	for {
		b, err := s.br.ReadByte()
		if err != nil {
			if sb.Len() > 0 {
				// incomplete trailing line: per spec it is discarded at EOF
				return "", err
			}
			return "", err
		}
		if s.KeepRaw {
			s.Raw = append(s.Raw, b)
		}
		if s.pendCR {
			s.pendCR = false
			if b == '\n' {
				continue
			}
		}
		if b == '\r' {
			s.pendCR = true
			return sb.String(), nil
		}
		if b == '\n' {
			return sb.String(), nil
		}
		sb.WriteByte(b)
	}
}

// Next returns the next dispatched event, or an error (io.EOF at end of stream).
func (s *SSEReader) Next() (*SSEEvent, error) {
	ev := &SSEEvent{}
	var data []string
	hasData := false
	for {
		line, err := s.readLine()
		if err != nil {
			return nil, err
		}
		if !s.bomDone {
			s.bomDone = true
			line = strings.TrimPrefix(line, "\xEF\xBB\xBF")
		}
		if line == "" {
			if !hasData {
				// nothing to dispatch; reset event type, keep collecting comments
				ev.Event = ""
				ev.IDLines = nil
				continue
			}
			ev.Data = strings.Join(data, "\n")
			ev.DataN = len(data)
			ev.ID = s.lastID
			return ev, nil
		}
		if strings.HasPrefix(line, ":") {
			s.Comments++
			s.ncomm.Add(1)
			ev.Comments = append(ev.Comments, line)
			continue
		}
		field, value := line, ""
		if i := strings.IndexByte(line, ':'); i >= 0 {
			field, value = line[:i], line[i+1:]
			value = strings.TrimPrefix(value, " ")
		}
		switch field {
		case "event":
			ev.Event = value
		case "data":
			data = append(data, value)
			hasData = true
		case "id":
			if !strings.Contains(value, "\x00") {
				s.lastID = value
			}
			ev.IDLines = append(ev.IDLines, value)
		case "retry":
		default:
			ev.Unknown = append(ev.Unknown, line)
		}
	}
}
