// Package sched is the controller behind the library's verifYield hook: it can hold goroutines at a
// yield point until released, release a set of arrivals in a chosen order, add seeded delays, and it
// records the global order of point hits.
package sched

import (
	"math/rand"
	"sync"
	"time"

	mcp "trpc.group/trpc-go/trpc-mcp-go"
)

type waiter struct {
	ch chan struct{}
}

// Controller implements the yield function.
type Controller struct {
	mu      sync.Mutex
	cond    *sync.Cond
	held    map[string]bool
	waiting map[string][]*waiter
	hits    []string
	counts  map[string]int
	giveUp  time.Duration
	gaveUp  int
	delayP  map[string]float64
	delayD  map[string]time.Duration
	rng     *rand.Rand
	maxWait map[string]int
}

// New creates a controller; giveUp bounds every hold (a goroutine held longer is let go and counted).
func New(giveUp time.Duration, seed int64) *Controller {
	c := &Controller{held: map[string]bool{}, waiting: map[string][]*waiter{}, counts: map[string]int{}, giveUp: giveUp,
		delayP: map[string]float64{}, delayD: map[string]time.Duration{}, rng: rand.New(rand.NewSource(seed)), maxWait: map[string]int{}}
	c.cond = sync.NewCond(&c.mu)
	return c
}

// Install makes this controller the library's yield function; Uninstall removes it.
func (c *Controller) Install() { mcp.VerifSetYield(c.yield) }

// Uninstall removes the yield function and releases everything.
func Uninstall() { mcp.VerifSetYield(nil) }

func (c *Controller) yield(point string) {
	c.mu.Lock()
	c.hits = append(c.hits, point)
	c.counts[point]++
	c.cond.Broadcast()
	if p, ok := c.delayP[point]; ok && c.rng.Float64() < p {
		d := time.Duration(c.rng.Int63n(int64(c.delayD[point]) + 1))
		c.mu.Unlock()
		time.Sleep(d)
		return
	}
	if !c.held[point] {
		c.mu.Unlock()
		return
	}
	w := &waiter{ch: make(chan struct{})}
	c.waiting[point] = append(c.waiting[point], w)
	if n := len(c.waiting[point]); n > c.maxWait[point] {
		c.maxWait[point] = n
	}
	c.cond.Broadcast()
	c.mu.Unlock()
	select {
	case <-w.ch:
	case <-time.After(c.giveUp):
		c.mu.Lock()
		c.gaveUp++
		// remove from the waiting list
		l := c.waiting[point]
		for i, x := range l {
			if x == w {
				c.waiting[point] = append(l[:i:i], l[i+1:]...)
				break
			}
		}
		c.mu.Unlock()
	}
}

// Hold makes every later arrival at point block until released.
func (c *Controller) Hold(point string) {
	c.mu.Lock()
	c.held[point] = true
	c.mu.Unlock()
}

// Release stops holding the point and lets everyone waiting there go.
func (c *Controller) Release(point string) {
	c.mu.Lock()
	c.held[point] = false
	for _, w := range c.waiting[point] {
		close(w.ch)
	}
	c.waiting[point] = nil
	c.mu.Unlock()
}

// ReleaseOne lets the i-th waiter at the point go (the point stays held). It returns false when there is none.
func (c *Controller) ReleaseOne(point string, i int) bool {
	c.mu.Lock()
	defer c.mu.Unlock()
	l := c.waiting[point]
	if i < 0 || i >= len(l) {
		return false
	}
	close(l[i].ch)
	c.waiting[point] = append(l[:i:i], l[i+1:]...)
	return true
}

// wakePeriodically broadcasts on the condition every few milliseconds until the returned function is called, so
// that a waiter re-checks its deadline. (A single timer armed for the whole duration can fire while the waiter's own
// clock reading is still before the deadline — the goroutine was descheduled between the two — and then nothing wakes
// the waiter again.)
func (c *Controller) wakePeriodically() (stop func()) {
	done := make(chan struct{})
	go func() {
		tk := time.NewTicker(5 * time.Millisecond)
		defer tk.Stop()
		for {
			select {
			case <-done:
				return
			case <-tk.C:
				c.mu.Lock()
				c.cond.Broadcast()
				c.mu.Unlock()
			}
		}
	}()
	return func() { close(done) }
}

// AwaitWaiting blocks until n goroutines wait at the point (or d elapsed); it returns the number waiting.
func (c *Controller) AwaitWaiting(point string, n int, d time.Duration) int {
	deadline := time.Now().Add(d)
	defer c.wakePeriodically()()
	c.mu.Lock()
	defer c.mu.Unlock()
	for len(c.waiting[point]) < n && time.Now().Before(deadline) {
		c.cond.Wait()
	}
	return len(c.waiting[point])
}

// AwaitHits blocks until the point was hit n times in total (or d elapsed); returns the count.
func (c *Controller) AwaitHits(point string, n int, d time.Duration) int {
	deadline := time.Now().Add(d)
	defer c.wakePeriodically()()
	c.mu.Lock()
	defer c.mu.Unlock()
	for c.counts[point] < n && time.Now().Before(deadline) {
		c.cond.Wait()
	}
	return c.counts[point]
}

// Hits returns the count of hits of a point.
func (c *Controller) Hits(point string) int {
	c.mu.Lock()
	defer c.mu.Unlock()
	return c.counts[point]
}

// RandomDelay makes arrivals at point sleep up to d with probability p.
func (c *Controller) RandomDelay(point string, p float64, d time.Duration) {
	c.mu.Lock()
	c.delayP[point] = p
	c.delayD[point] = d
	c.mu.Unlock()
}

// Order returns the recorded order of point hits and clears it.
func (c *Controller) Order() []string {
	c.mu.Lock()
	defer c.mu.Unlock()
	o := c.hits
	c.hits = nil
	return o
}

// GaveUp returns how many holds ended by the give-up timeout.
func (c *Controller) GaveUp() int {
	c.mu.Lock()
	defer c.mu.Unlock()
	return c.gaveUp
}

// MaxWaiting returns the maximum number of goroutines simultaneously held at the point.
func (c *Controller) MaxWaiting(point string) int {
	c.mu.Lock()
	defer c.mu.Unlock()
	return c.maxWait[point]
}
