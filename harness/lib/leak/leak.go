// Package leak observes the process' own goroutine table and fd table.
package leak

import (
	"os"
	"regexp"
	"runtime"
	"sort"
	"strings"
	"time"
)

const libPrefix = "trpc.group/trpc-go/trpc-mcp-go"

// G is one goroutine of a dump.
type G struct {
	ID     string
	State  string
	Funcs  []string // function names, innermost first
	Raw    string
	LibTop string // innermost library function ("" when no library frame)
}

var hdrRe = regexp.MustCompile(`^goroutine (\d+) \[([^\]]*)\]:`)

// Dump returns the stacks of all goroutines.
func Dump() string {
	buf := make([]byte, 1<<20)
	for {
		n := runtime.Stack(buf, true)
		if n < len(buf) {
			return string(buf[:n])
		}
		buf = make([]byte, 2*len(buf))
	}
}

// Parse splits a dump into goroutines.
func Parse(dump string) []G {
	var out []G
	for _, blk := range strings.Split(dump, "\n\n") {
		lines := strings.Split(strings.TrimSpace(blk), "\n")
		if len(lines) == 0 {
			continue
		}
		m := hdrRe.FindStringSubmatch(lines[0])
		if m == nil {
			continue
		}
		g := G{ID: m[1], State: m[2], Raw: blk}
		for _, l := range lines[1:] {
			if strings.HasPrefix(l, "\t") || strings.HasPrefix(l, " ") {
				continue
			}
			fn := l
			if strings.HasPrefix(fn, "created by ") {
				fn = strings.TrimPrefix(fn, "created by ")
				if i := strings.Index(fn, " in goroutine"); i > 0 {
					fn = fn[:i]
				}
				if strings.HasPrefix(fn, libPrefix) && g.LibTop == "" {
					g.LibTop = "created-by:" + short(fn)
				}
				g.Funcs = append(g.Funcs, "created by "+fn)
				continue
			}
			if i := strings.LastIndex(fn, "("); i > 0 {
				fn = fn[:i]
			}
			g.Funcs = append(g.Funcs, fn)
			if g.LibTop == "" && strings.HasPrefix(fn, libPrefix) {
				g.LibTop = short(fn)
			}
		}
		out = append(out, g)
	}
	return out
}

func short(fn string) string {
	fn = strings.TrimPrefix(fn, libPrefix)
	fn = strings.TrimPrefix(fn, ".")
	return fn
}

// Lib returns the goroutines that have a frame of the library under test (or were created by it),
// grouped by innermost library function.
func Lib(gs []G) (int, map[string]int) {
	by := map[string]int{}
	n := 0
	for _, g := range gs {
		if g.LibTop != "" {
			n++
			by[g.LibTop]++
		}
	}
	return n, by
}

// LibNow is Lib(Parse(Dump())).
func LibNow() (int, map[string]int) { return Lib(Parse(Dump())) }

// HTTPConn counts net/http persistConn loops (client side) — connections never released.
func HTTPConn(gs []G) int {
	n := 0
	for _, g := range gs {
		for _, f := range g.Funcs {
			if strings.Contains(f, "net/http.(*persistConn).readLoop") {
				n++
				break
			}
		}
	}
	return n
}

// FDs returns the number of open file descriptors of this process.
func FDs() int {
	d, err := os.ReadDir("/proc/self/fd")
	if err != nil {
		return -1
	}
	return len(d)
}

// Settle polls f until it returned the same value three times in a row (or d elapsed) and returns the last value.
func Settle(f func() int, d time.Duration) int {
	deadline := time.Now().Add(d)
	last, same := f(), 0
	for time.Now().Before(deadline) {
		time.Sleep(40 * time.Millisecond)
		v := f()
		if v == last {
			same++
			if same >= 3 {
				return v
			}
		} else {
			last, same = v, 0
		}
	}
	return last
}

// SettleBelow polls f until it is <= want (or d elapsed).
func SettleBelow(f func() int, want int, d time.Duration) int {
	deadline := time.Now().Add(d)
	v := f()
	for v > want && time.Now().Before(deadline) {
		time.Sleep(40 * time.Millisecond)
		v = f()
	}
	return v
}

// Describe renders a by-function map deterministically.
func Describe(by map[string]int) []string {
	var out []string
	for k, v := range by {
		out = append(out, k+"="+itoa(v))
	}
	sort.Strings(out)
	return out
}

func itoa(n int) string {
	if n == 0 {
		return "0"
	}
	neg := n < 0
	if neg {
		n = -n
	}
	var b []byte
	for n > 0 {
		b = append([]byte{byte('0' + n%10)}, b...)
		n /= 10
	}
	if neg {
		b = append([]byte{'-'}, b...)
	}
	return string(b)
}
