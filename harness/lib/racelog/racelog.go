// Package racelog parses Go race-detector logs (GORACE=log_path=...) and de-duplicates the reports.
package racelog

import (
	"os"
	"path/filepath"
	"regexp"
	"sort"
	"strings"
)

const libPrefix = "trpc.group/trpc-go/trpc-mcp-go"

// Report is one "WARNING: DATA RACE" block.
type Report struct {
	Access1 string // innermost library function of the first access ("" when none)
	Access2 string // innermost library function of the second (previous) access
	Top1    string // innermost function of the first access (any package)
	Top2    string
	Pair    string // sorted "A × B" of library functions (or top functions when no library frame)
	InLib   bool   // at least one access stack has a library frame
	Text    string
}

var (
	accessRe = regexp.MustCompile(`(?m)^(?:Read|Write|Previous read|Previous write|Atomic [a-z]+|Previous atomic [a-z]+) at 0x[0-9a-f]+ by `)
	lineNoRe = regexp.MustCompile(`:\d+( \+0x[0-9a-f]+)?$`)
)

func fnOf(line string) string {
	line = strings.TrimSpace(line)
	if i := strings.LastIndex(line, "("); i > 0 {
		line = line[:i]
	}
	return line
}

func short(fn string) string {
	fn = strings.TrimPrefix(fn, libPrefix)
	fn = strings.TrimPrefix(fn, "/")
	fn = strings.TrimPrefix(fn, ".")
	return fn
}

// stackFuncs returns the function names of one stack section (lines alternate "func(args)" / "  file:line").
func stackFuncs(section string) []string {
	var out []string
	for _, l := range strings.Split(section, "\n") {
		if l == "" || strings.HasPrefix(l, "      ") { // file:line lines are indented deeper
			continue
		}
		t := strings.TrimSpace(l)
		if t == "" || strings.HasPrefix(t, "/") || lineNoRe.MatchString(t) && strings.Contains(t, ".go:") {
			continue
		}
		if strings.Contains(t, "(") {
			out = append(out, fnOf(t))
		}
	}
	return out
}

// ParseText splits a log into reports.
func ParseText(text string) []Report {
	var out []Report
	blocks := strings.Split(text, "WARNING: DATA RACE")
	for _, b := range blocks[1:] {
		if i := strings.Index(b, "=================="); i >= 0 {
			b = b[:i]
		}
		locs := accessRe.FindAllStringIndex(b, -1)
		if len(locs) < 2 {
			continue
		}
		end := len(b)
		if i := strings.Index(b, "\nGoroutine "); i > 0 {
			end = i
		}
		if locs[1][0] > end {
			continue
		}
		s1 := b[locs[0][1]:locs[1][0]]
		s2 := b[locs[1][1]:end]
		r := Report{Text: strings.TrimSpace(b)}
		pick := func(section string) (lib, top string) {
			fns := stackFuncs(section)
			if len(fns) > 0 {
				top = fns[0]
			}
			for _, f := range fns {
				if strings.HasPrefix(f, libPrefix) {
					return short(f), top
				}
			}
			return "", top
		}
		r.Access1, r.Top1 = pick(s1)
		r.Access2, r.Top2 = pick(s2)
		r.InLib = r.Access1 != "" || r.Access2 != ""
		a, c := r.Access1, r.Access2
		if a == "" {
			a = "[" + r.Top1 + "]"
		}
		if c == "" {
			c = "[" + r.Top2 + "]"
		}
		p := []string{a, c}
		sort.Strings(p)
		r.Pair = p[0] + " × " + p[1]
		out = append(out, r)
	}
	return out
}

// ParseGlob reads every log file matching the pattern prefix (GORACE log_path writes <path>.<pid>).
func ParseGlob(prefix string) []Report {
	files, _ := filepath.Glob(prefix + ".*")
	var out []Report
	for _, f := range files {
		b, err := os.ReadFile(f)
		if err != nil {
			continue
		}
		out = append(out, ParseText(string(b))...)
	}
	return out
}

// Dedupe groups reports by pair.
func Dedupe(rs []Report) map[string][]Report {
	m := map[string][]Report{}
	for _, r := range rs {
		m[r.Pair] = append(m[r.Pair], r)
	}
	return m
}
